"""
Independent reader of the neutron tables embedded in periodictable/nsf.py and
nsf_tables.py (used by props/c07.py only).

The module source is parsed with ``ast``; the column order of ``nsftable`` is
not assumed but built from the comment block that documents the table (each
field is a comment line followed by an indented description), so cells are
addressed by *name*.  Numbers are read with one regular expression.
"""
import ast
import os
import re

FIELDS_EXPECTED = ["Z-Symbol-A", "concentration/half-life", "spin I", "b_c", "bp", "bm", "c",
                   "coherent", "incoherent", "total", "absorption"]

# <limit, number, optional (uncertainty), optional exponent that applies to value and uncertainty alike
# (6.0E-6 and 2.4(8)E-5 = (2.4 +- 0.8)e-5), optional * for an estimate
_RE_NUM = re.compile(r"^(<?)([-+]?(?:\d+\.?\d*|\.\d+))((?:[eE][-+]?\d+)?)(\(.*?\))?((?:[eE][-+]?\d+)?)(\*?)$")
_RE_ID = re.compile(r"^(\d+)-([A-Za-z]+)(?:-(\d+))?$")
_RE_HALFLIFE = re.compile(r"^[0-9.eE+]+ [YS]$")


def module_path(name):
    import periodictable
    return os.path.join(os.path.dirname(os.path.abspath(periodictable.__file__)), name + ".py")


def _source(name):
    with open(module_path(name), "rb") as f:
        raw = f.read()
    return raw, ast.parse(raw)


def _assign(tree, name):
    found = [n for n in tree.body if isinstance(n, ast.Assign) and len(n.targets) == 1
             and isinstance(n.targets[0], ast.Name) and n.targets[0].id == name]
    if len(found) != 1:
        raise ValueError("%s assigned %d times" % (name, len(found)))
    return found[0]


def _comment_block_above(lines, lineno):
    """comment lines directly above 1-based *lineno* (blank lines between block and statement skipped)"""
    i = lineno - 2
    while i >= 0 and lines[i].strip() == "":
        i -= 1
    out = []
    while i >= 0 and lines[i].startswith("#"):
        out.append(lines[i])
        i -= 1
    return out[::-1]


class Bad(object):
    """Marker for a cell that is not in a documented notation (evidence for the check, never an exception)."""

    def __init__(self, text):
        self.text = text

    def __repr__(self):
        return "Bad(%r)" % (self.text,)


def number(cell):
    """(float, None for a blank cell, or Bad(cell); marks) ; marks subset of {'<','*','unc','unc-point','exponent',...}"""
    from decimal import Decimal
    if cell == "":
        return None, ()
    m = _RE_NUM.match(cell)
    if not m or (m.group(3) and m.group(5)):
        return Bad(cell), ("unreadable",)
    marks = []
    if m.group(1):
        marks.append("<")
    if m.group(6):
        marks.append("*")
    if m.group(4):
        marks.append("unc-point" if "." in m.group(4) else "unc")
    exp = m.group(3) or m.group(5)
    if exp:
        marks.append("exponent" if m.group(3) else "exponent-after-uncertainty")
    return float(Decimal(m.group(2) + exp)), tuple(marks)


def neutron_tables():
    """
    dict(rows=[record...], imag={(z, a): (b_c_i, bp_i, bm_i, sym)}, header=[names], problems=[(table, row, reason)])
    record: dict(id, z, sym, a (0 = element row), abundance (float, 0.0 for a half-life, None when blank),
                 halflife (bool), spin (str), b_c, bp, bm, flag (str), coherent, incoherent, total,
                 absorption, marks (sorted list), cells {field: text}).  A numeric field may be Bad(text).
    Rows that cannot be laid out are skipped and listed in problems; nothing is raised for a cell's content.
    """
    raw, tree = _source("nsf")
    lines = raw.decode("latin-1").split("\n")
    node = _assign(tree, "nsftable")
    problems = []
    block = _comment_block_above(lines, node.lineno)
    header = []
    for k, ln in enumerate(block[:-1]):
        if re.match(r"^# \S", ln) and re.match(r"^#\s{2,}\S", block[k + 1]):
            header.extend(x.strip() for x in ln[2:].split(","))
    header_from_doc = (header == FIELDS_EXPECTED)
    if not header_from_doc:
        header = list(FIELDS_EXPECTED)          # the documented order; a reworded comment is not a data error
    rows = []
    seen = set()
    for ln in ast.literal_eval(node.value).split("\n"):
        cells = ln.split(",")
        if len(cells) != len(header):
            problems.append(("nsftable", ln, "%d cells instead of %d" % (len(cells), len(header))))
            continue
        c = dict(zip(header, cells))
        m = _RE_ID.match(c["Z-Symbol-A"])
        if not m:
            problems.append(("nsftable", ln, "first cell is not Z-Symbol[-A]"))
            continue
        z, sym, a = int(m.group(1)), m.group(2), int(m.group(3) or 0)
        if (z, a) in seen:
            problems.append(("nsftable", ln, "nuclide listed twice"))
            continue
        seen.add((z, a))
        marks = set()
        rec = dict(id=c["Z-Symbol-A"], z=z, sym=sym, a=a, spin=c["spin I"], flag=c["c"], cells=c)
        p = c["concentration/half-life"]
        if _RE_HALFLIFE.match(p):
            rec["abundance"], rec["halflife"] = 0.0, True
            marks.add("half-life")
        else:
            rec["abundance"], mk = number(p)
            marks.update(k for k in mk if k == "unreadable")
            rec["halflife"] = False
            if p == "" and a:
                marks.add("abundance-blank")
        for f in ("b_c", "bp", "bm", "coherent", "incoherent", "total", "absorption"):
            rec[f], mk = number(c[f])
            marks.update(mk)
            if c[f] == "":
                marks.add("blank:" + f)
        rec["marks"] = sorted(marks)
        rows.append(rec)

    nodeI = _assign(tree, "nsftableI")
    blockI = _comment_block_above(lines, nodeI.lineno)
    hdrI = [x.strip() for x in blockI[-1][1:].split(",")] if blockI else []
    if hdrI != ["isotope", "b_c_i", "bp_i", "bm_i"]:
        hdrI = ["isotope", "b_c_i", "bp_i", "bm_i"]
    imag = {}
    for ln in ast.literal_eval(nodeI.value).split("\n"):
        cells = ln.split(",")
        c = dict(zip(hdrI, cells))
        m = _RE_ID.match(c["isotope"]) if len(cells) == 4 else None
        if not m:
            problems.append(("nsftableI", ln, "row is not Z-Symbol[-A],b_c_i,bp_i,bm_i"))
            continue
        key = (int(m.group(1)), int(m.group(3) or 0))
        if key in imag:
            problems.append(("nsftableI", ln, "nuclide listed twice"))
            continue
        imag[key] = tuple(number(c[f])[0] for f in ("b_c_i", "bp_i", "bm_i")) + (m.group(2), c)
    return dict(rows=rows, imag=imag, header=header, header_from_doc=header_from_doc, problems=problems)


def energy_tables():
    """{(symbol, A or None): [[E_eV, re, im, mod], ...]} from the source of nsf_tables.py"""
    raw, tree = _source("nsf_tables")
    node = _assign(tree, "ENERGY_DEPENDENT_TABLES")
    return ast.literal_eval(node.value)
