"""
Independent reader of the neutron tables embedded in periodictable/nsf.py and
nsf_tables.py (used by props/c07.py only).

The module source is parsed with ``ast``; the column order of ``nsftable`` is
not assumed but built from the comment block that documents the table (each
field is a comment line followed by an indented description), so cells are
addressed by *name*.  Numbers are read with one regular expression.
"""
import ast
import os
import re

FIELDS_EXPECTED = ["Z-Symbol-A", "concentration/half-life", "spin I", "b_c", "bp", "bm", "c",
                   "coherent", "incoherent", "total", "absorption"]

_RE_NUM = re.compile(r"^(<?)([-+]?(?:\d+\.?\d*|\.\d+)(?:[eE][-+]?\d+)?)(\(.*?\))?(\*?)$")
_RE_ID = re.compile(r"^(\d+)-([A-Za-z]+)(?:-(\d+))?$")
_RE_HALFLIFE = re.compile(r"^[0-9.eE+]+ [YS]$")


def module_path(name):
    import periodictable
    return os.path.join(os.path.dirname(os.path.abspath(periodictable.__file__)), name + ".py")


def _source(name):
    with open(module_path(name), "rb") as f:
        raw = f.read()
    return raw, ast.parse(raw)


def _assign(tree, name):
    found = [n for n in tree.body if isinstance(n, ast.Assign) and len(n.targets) == 1
             and isinstance(n.targets[0], ast.Name) and n.targets[0].id == name]
    if len(found) != 1:
        raise ValueError("%s assigned %d times" % (name, len(found)))
    return found[0]


def _comment_block_above(lines, lineno):
    """comment lines directly above 1-based *lineno* (blank lines between block and statement skipped)"""
    i = lineno - 2
    while i >= 0 and lines[i].strip() == "":
        i -= 1
    out = []
    while i >= 0 and lines[i].startswith("#"):
        out.append(lines[i])
        i -= 1
    return out[::-1]


def number(cell):
    """(float or None, marks) ; marks subset of {'<','*','unc','unc-point'}"""
    if cell == "":
        return None, ()
    m = _RE_NUM.match(cell)
    if not m:
        raise ValueError("cell not understood: %r" % cell)
    marks = []
    if m.group(1):
        marks.append("<")
    if m.group(4):
        marks.append("*")
    if m.group(3):
        marks.append("unc-point" if "." in m.group(3) else "unc")
    if "e" in m.group(2).lower():
        marks.append("exponent")
    return float(m.group(2)), tuple(marks)


def neutron_tables():
    """
    dict(rows=[record...], imag={(z, a): (b_c_i, bp_i, bm_i)}, header=[names])
    record: dict(id, z, sym, a (0 = element row), abundance (float, 0.0 for a half-life, None when blank),
                 halflife (bool), spin (str), b_c, bp, bm, flag (str), coherent, incoherent, total,
                 absorption, marks (sorted list))
    """
    raw, tree = _source("nsf")
    lines = raw.decode("latin-1").split("\n")
    node = _assign(tree, "nsftable")
    block = _comment_block_above(lines, node.lineno)
    header = []
    for k, ln in enumerate(block[:-1]):
        if re.match(r"^# \S", ln) and re.match(r"^#\s{2,}\S", block[k + 1]):
            header.extend(x.strip() for x in ln[2:].split(","))
    if header != FIELDS_EXPECTED:
        raise ValueError("column documentation above nsftable reads %r" % (header,))
    rows = []
    seen = set()
    for ln in ast.literal_eval(node.value).split("\n"):
        cells = ln.split(",")
        if len(cells) != len(header):
            raise ValueError("row with %d cells: %r" % (len(cells), ln))
        c = dict(zip(header, cells))
        m = _RE_ID.match(c["Z-Symbol-A"])
        if not m:
            raise ValueError("row id %r" % c["Z-Symbol-A"])
        z, sym, a = int(m.group(1)), m.group(2), int(m.group(3) or 0)
        if (z, a) in seen:
            raise ValueError("row %s twice" % c["Z-Symbol-A"])
        seen.add((z, a))
        marks = set()
        rec = dict(id=c["Z-Symbol-A"], z=z, sym=sym, a=a, spin=c["spin I"], flag=c["c"])
        p = c["concentration/half-life"]
        if _RE_HALFLIFE.match(p):
            rec["abundance"], rec["halflife"] = 0.0, True
            marks.add("half-life")
        else:
            rec["abundance"], mk = number(p)
            rec["halflife"] = False
            if p == "" and a:
                marks.add("abundance-blank")
        for f in ("b_c", "bp", "bm", "coherent", "incoherent", "total", "absorption"):
            rec[f], mk = number(c[f])
            marks.update(mk)
            if c[f] == "":
                marks.add("blank:" + f)
        rec["marks"] = sorted(marks)
        rows.append(rec)

    nodeI = _assign(tree, "nsftableI")
    blockI = _comment_block_above(lines, nodeI.lineno)
    hdrI = [x.strip() for x in blockI[-1][1:].split(",")] if blockI else []
    if hdrI != ["isotope", "b_c_i", "bp_i", "bm_i"]:
        raise ValueError("column documentation above nsftableI reads %r" % (hdrI,))
    imag = {}
    for ln in ast.literal_eval(nodeI.value).split("\n"):
        cells = ln.split(",")
        if len(cells) != 4:
            raise ValueError("imaginary row %r" % ln)
        c = dict(zip(hdrI, cells))
        m = _RE_ID.match(c["isotope"])
        key = (int(m.group(1)), int(m.group(3) or 0))
        if key in imag:
            raise ValueError("imaginary row %s twice" % c["isotope"])
        imag[key] = tuple(number(c[f])[0] for f in ("b_c_i", "bp_i", "bm_i")) + (m.group(2),)
    return dict(rows=rows, imag=imag, header=header)


def energy_tables():
    """{(symbol, A or None): [[E_eV, re, im, mod], ...]} from the source of nsf_tables.py"""
    raw, tree = _source("nsf_tables")
    node = _assign(tree, "ENERGY_DEPENDENT_TABLES")
    return ast.literal_eval(node.value)
