"""
Runner for the property checks.

    ./check C07 [--tier quick|thorough] [--replay FILE] [--jobs N]

A property module (pbt/props/cXX.py) exposes

    PROPERTY = "C07"
    RULE     = "how cases are generated and what makes one non-trivial"
    ASSUMPTIONS = [...]
    def tasks(tier): -> list of (name, fn, kwargs)       # fn(ctx, **kwargs)
    def replay(ctx, case): -> None                        # re-run one saved case

Every task runs in its own process forked from this one.  This process
never imports periodictable, so each task (and each history forked by a
task) starts from an interpreter in which no loader has run.

Exit codes: 0 property held (KNOWN-FINDING lines allowed), 1 violation,
2 harness error.
"""
from __future__ import annotations

import argparse
import hashlib
import importlib
import json
import multiprocessing as mp
import os
import sys
import time
import traceback

VERIF = os.path.dirname(os.path.dirname(os.path.abspath(__file__)))
REPO = os.environ.get("VERIF_REPO", "/repo")
MAX_BUCKETS_PER_TASK = 6
MAX_SAMPLES = 8


class Violation(Exception):
    """The property failed on a case.  *bucket* names the root cause."""

    def __init__(self, bucket, message, case=None):
        Exception.__init__(self, "%s: %s" % (bucket, message))
        self.bucket = bucket
        self.message = message
        self.case = case


def _hash(key):
    return hashlib.blake2b(repr(key).encode("utf8", "replace"),
                           digest_size=8).digest()


def _jsonable(x):
    try:
        json.dumps(x)
        return x
    except Exception:
        return repr(x)


def lib_frame(tb):
    """Innermost periodictable frame of a traceback, or None."""
    found = None
    for fr in traceback.extract_tb(tb):
        fn = fr.filename.replace("\\", "/")
        if "/periodictable/" in fn and "/pbt/" not in fn:
            found = "%s:%s" % (os.path.basename(fn), fr.name)
    return found


ORACLE_CRASH_TYPES = (TypeError, AttributeError, IndexError, KeyError, ZeroDivisionError, OverflowError)


def check_frame(tb):
    """Innermost frame inside a property module (pbt/props, helper modules), or None."""
    found = None
    for fr in traceback.extract_tb(tb):
        fn = fr.filename.replace("\\", "/")
        if "/pbt/" in fn and not fn.endswith("/pbt/runner.py"):
            found = "%s:%s" % (os.path.basename(fn), fr.name)
    return found


class Ctx(object):
    """Per-task context: counters, samples, violations."""

    def __init__(self, prop, task, tier, seed, excluded, shared=None):
        self.shared = shared                # result of the module's prepare(tier), if it has one
        self.prop = prop
        self.task = task
        self.tier = tier
        self.seed = seed
        self.excluded = set(excluded)      # buckets of known findings
        self.found = set()                 # buckets found by this task
        self.evaluations = 0
        self.nontrivial = set()
        self.samples = []
        self.nt_samples = []
        self.classes = {}
        self.excluded_counts = {}
        self.violations = []               # (bucket, message, case)
        self.extra = {}
        self.inconclusive = 0
        self.ambient = {}                  # run-time switches of pbt/ambient.py (thread hop, gc pressure)
        self._calls = 0

    def _call(self, fn, *args):
        """Call an oracle; under the ambient perturbations every other call is made from a fresh thread and the
        collector is run now and then."""
        self._calls += 1
        if self.ambient.get("gc") and self._calls % 64 == 0:
            import gc
            gc.collect()
        if self.ambient.get("rejects") and self._calls % 3 == 0:
            from . import ambient
            ambient.rejected_call(self._calls // 3)
        if self.ambient.get("thread") and self._calls % 2 == 1:
            from . import ambient
            return ambient.hop(fn, *args)
        return fn(*args)

    # -- counting ------------------------------------------------------
    def case(self, key, nontrivial=True, sample=None, cls=None):
        self.evaluations += 1
        if nontrivial:
            n = len(self.nontrivial)
            self.nontrivial.add(_hash(key))
            if len(self.nontrivial) > n and len(self.nt_samples) < MAX_SAMPLES:
                self.nt_samples.append(_jsonable(sample if sample is not None else key))
        elif len(self.samples) < 2:
            self.samples.append(_jsonable(sample if sample is not None else key))
        if cls is not None:
            for c in (cls if isinstance(cls, (list, tuple, set)) else [cls]):
                self.classes[c] = self.classes.get(c, 0) + 1

    def count(self, cls, n=1):
        self.classes[cls] = self.classes.get(cls, 0) + n

    # -- violations ----------------------------------------------------
    def skip_bucket(self, bucket):
        """True if *bucket* is a known finding or was already reported."""
        if bucket in self.excluded:
            self.excluded_counts[bucket] = self.excluded_counts.get(bucket, 0) + 1
            return True
        return bucket in self.found

    def violation(self, bucket, message, case):
        """Record a violation directly (for sweeps, which do not shrink)."""
        if self.skip_bucket(bucket):
            return
        self.found.add(bucket)
        self.violations.append((bucket, message, _jsonable(case)))

    def check(self, fn, case, *args):
        """Run oracle *fn(ctx, case, ...)*; turn a Violation or an exception
        that comes out of the library into a recorded violation."""
        try:
            self._call(fn, self, case, *args)
        except Violation as v:
            self.violation(v.bucket, v.message, v.case if v.case is not None else case)
        except Exception as e:  # noqa
            fr = lib_frame(e.__traceback__)
            if fr is None:
                fr2 = check_frame(e.__traceback__)
                if fr2 is None or not isinstance(e, ORACLE_CRASH_TYPES):
                    raise
                self.violation("check-crash:%s:%s" % (type(e).__name__, fr2),
                               "the oracle could not interpret the library's answer: %s: %s" % (type(e).__name__, e), case)
                return
            self.violation("exc:%s:%s" % (type(e).__name__, fr),
                           "%s: %s" % (type(e).__name__, e), case)

    # -- generated search with bucket exclusion ------------------------
    def search(self, name, strategy, fn, max_examples, to_case=None, shrink=True, post_shrink=None):
        """Hypothesis search: fn(ctx, value) raises Violation on failure.
        On failure the shrunk case is recorded, its bucket excluded and the
        search rerun, so one shallow defect does not hide the rest."""
        import hypothesis
        from hypothesis import given, settings, HealthCheck, Phase

        sd = int.from_bytes(_hash((self.seed, self.task, name)), "big") % (2**63)
        phases = [Phase.generate, Phase.target] + ([Phase.shrink] if shrink else [])
        st = settings(max_examples=max_examples, database=None, deadline=None,
                      report_multiple_bugs=False, phases=phases,
                      suppress_health_check=list(HealthCheck), derandomize=False,
                      print_blob=False)
        to_case = to_case or (lambda v: v)
        early = []          # the first cases of this search, judged again when the process has aged (pbt/ambient.py)
        for _ in range(MAX_BUCKETS_PER_TASK):
            last = {}

            @hypothesis.seed(sd)
            @st
            @given(strategy)
            def t(value):
                if self.ambient.get("aged") and len(early) < 24:
                    try:
                        early.append(json.loads(json.dumps(value)))
                    except (TypeError, ValueError):
                        pass
                try:
                    self._call(fn, self, value)
                except Violation as v:
                    if self.skip_bucket(v.bucket):
                        return
                    last["v"] = (v.bucket, v.message,
                                 v.case if v.case is not None else to_case(value))
                    raise
                except Exception as e:  # noqa
                    fr = lib_frame(e.__traceback__)
                    if fr is None:
                        fr2 = check_frame(e.__traceback__)
                        if fr2 is None or not isinstance(e, ORACLE_CRASH_TYPES):
                            raise
                        # the oracle could not interpret what the library returned (e.g. None where
                        # numbers are documented): reported as a violation, not swallowed as a harness error
                        b = "check-crash:%s:%s" % (type(e).__name__, fr2)
                    else:
                        b = "exc:%s:%s" % (type(e).__name__, fr)
                    if self.skip_bucket(b):
                        return
                    last["v"] = (b, "%s: %s" % (type(e).__name__, e), to_case(value))
                    raise Violation(b, str(e))
            try:
                t()
                if self.ambient.get("aged") and early and not self.violations:
                    self._revisit(name, fn, early, to_case)
                return
            except Exception as e:  # noqa
                import hypothesis.errors as he
                flaky = isinstance(e, getattr(he, "Flaky", ()))
                if not isinstance(e, Violation) and not (flaky and "v" in last):
                    raise
                b, m, c = last["v"]
                if flaky:
                    # the same generated case passed on a second execution: the library keeps state
                    # between calls that changes what it serves.  The first failure is reported as it
                    # was found (it may need the preceding cases of this run to reproduce).
                    m = m + " [outcome changed when the case was re-executed in the same process: " \
                            "state leaks between calls]"
                if post_shrink is not None:
                    c = post_shrink(b, c)
                self.found.add(b)
                self.violations.append((b, m, _jsonable(c)))
        return

    def _revisit(self, name, fn, early, to_case):
        """The first cases of a finished search, judged again by the same oracle after the process was aged."""
        from . import ambient
        ambient.age()
        ev = self.evaluations
        for value in early:
            try:
                fn(self, value)
            except Violation as v:
                if not self.skip_bucket(v.bucket):
                    self.found.add(v.bucket)
                    self.violations.append((v.bucket + ":late-in-process", v.message + " [an early case of this search, "
                                            "judged again after the process had aged: 6000 other structures, every ion, "
                                            "24 more private tables]", _jsonable(v.case if v.case is not None else to_case(value))))
                    return
            except Exception as e:  # noqa
                fr = lib_frame(e.__traceback__)
                if fr is None:
                    raise
                b = "exc:%s:%s" % (type(e).__name__, fr)
                if not self.skip_bucket(b):
                    self.found.add(b)
                    self.violations.append((b + ":late-in-process", "%s: %s [an early case judged again after the process "
                                            "had aged]" % (type(e).__name__, e), _jsonable(to_case(value))))
                    return
        self.classes["revisited-after-aging"] = self.classes.get("revisited-after-aging", 0) + (self.evaluations - ev)

    def result(self):
        return dict(task=self.task, evaluations=self.evaluations,
                    nontrivial=self.nontrivial,
                    samples=self.nt_samples[:MAX_SAMPLES] or self.samples,
                    classes=self.classes, excluded=self.excluded_counts,
                    violations=self.violations, extra=self.extra,
                    inconclusive=self.inconclusive)


def _setup_path():
    # the working tree under test first, then /verif for pbt.*
    for p in (VERIF, REPO):
        if p in sys.path:
            sys.path.remove(p)
    sys.path.insert(0, VERIF)
    sys.path.insert(0, REPO)


def _run_task(args):
    prop, modname, idx, tier, seed, excluded, shared = args
    assert "periodictable" not in sys.modules
    t0 = time.time()
    try:
        mod = importlib.import_module(modname)
        name, fn, kw = mod.tasks(tier)[idx]
        ctx = Ctx(prop, name, tier, seed, excluded, shared)
        from . import ambient
        on = ambient.choose(seed, prop, name, mod, idx)
        ctx.ambient = ambient.enter(on, seed, prop, name, REPO)
        ctx.extra["ambient"] = on
        try:
            fn(ctx, **kw)
        except Violation as v:
            ctx.violation(v.bucket, v.message, v.case)
        except Exception as e:  # noqa
            fr = lib_frame(e.__traceback__)
            if fr is None:
                raise
            ctx.violation("exc:%s:%s" % (type(e).__name__, fr),
                          "%s: %s (escaped task %s)" % (type(e).__name__, e, name),
                          {"task": name, "traceback": traceback.format_exc()[-2000:]})
        ambient.leave(ctx.ambient)
        r = ctx.result()
        r["ambient"] = on
        r["wall_s"] = time.time() - t0
        return r
    except BaseException:  # noqa
        return dict(task="#%d" % idx, error=traceback.format_exc())


def load_known(prop):
    path = os.path.join(VERIF, "known_findings.json")
    if not os.path.exists(path):
        return []
    with open(path) as f:
        data = json.load(f)
    return [e for e in data.get("findings", []) if e.get("property") == prop]


def _slug(s):
    return "".join(c if c.isalnum() or c in "-_." else "_" for c in s)[:80]


def _probe_known(args):
    """Run the reproducer of one known finding in a fresh process."""
    prop, modname, entry, tier, seed, shared = args
    mod = importlib.import_module(modname)
    ctx = Ctx(prop, "known:" + entry["id"], tier, seed, [], shared)
    if entry.get("ambient"):
        from . import ambient
        ctx.ambient = ambient.enter(entry["ambient"], seed, prop, entry.get("task", ""), REPO)
    try:
        ctx.check(lambda c, case: mod.replay(c, case), entry["reproducer"])
    except Exception:  # noqa
        return dict(error=traceback.format_exc())
    return dict(buckets=sorted(b for b, _, _ in ctx.violations))


def main(argv=None):
    ap = argparse.ArgumentParser()
    ap.add_argument("prop")
    ap.add_argument("--tier", default=os.environ.get("VERIF_TIER", "quick"),
                    choices=["quick", "thorough"])
    ap.add_argument("--replay")
    ap.add_argument("--jobs", type=int, default=int(os.environ.get("VERIF_JOBS", "16")))
    ap.add_argument("--only", help="run only tasks whose name contains this")
    a = ap.parse_args(argv)
    prop = a.prop.upper()
    seed = int(os.environ.get("VERIF_SEED", "1") or "1")
    _setup_path()
    modname = "pbt.props.%s" % prop.lower()
    t0 = time.time()
    mp.set_start_method("fork")

    # A pristine helper process imports the module to list the tasks, so the
    # main process stays free of periodictable.
    with mp.Pool(1) as p0:
        meta = p0.apply(_meta, (modname, a.tier))
    if "error" in meta:
        print(meta["error"])
        return 2

    # optional module hook: values computed once, in a fresh process, and handed to every task
    shared = None
    if meta.get("has_prepare"):
        with mp.Pool(1) as p0:
            shared = p0.apply(_prepare, (modname, a.tier))
        if isinstance(shared, dict) and "__error__" in shared:
            print("HARNESS-ERROR prepare: %s" % shared["__error__"])
            return 2

    if a.replay:
        with open(a.replay) as f:
            rp = json.load(f)
        with mp.Pool(1) as p0:
            r = p0.apply(_probe_known, ((prop, modname, dict(id="replay", reproducer=rp["case"], ambient=rp.get("ambient"),
                                                           task=rp.get("task", "")),
                                         a.tier, seed, shared),))
        if "error" in r:
            print(r["error"])
            return 2
        if r["buckets"]:
            print("VIOLATION property=%s replay=%s buckets=%s" % (prop, a.replay, ",".join(r["buckets"])))
            return 1
        print("replay passes: %s" % a.replay)
        return 0

    # known findings: run each reproducer; only those that still fail are
    # announced and excluded.
    excluded = []
    known_lines = []
    known = [e for e in load_known(prop) if e.get("status") == "known"]
    fixed = [e for e in load_known(prop) if e.get("status") == "fixed"]
    with mp.Pool(min(a.jobs, max(1, len(known) + len(fixed))), maxtasksperchild=1) as pk:
        rs = pk.map(_probe_known, [(prop, modname, e, a.tier, seed, shared) for e in known + fixed], 1)
    harness_errors = []
    regressions = []
    for e, r in zip(known + fixed, rs):
        if "error" in r:
            harness_errors.append("known-finding reproducer %s: %s" % (e["id"], r["error"]))
            continue
        if e.get("status") == "known":
            if e["bucket"] in r["buckets"]:
                excluded.append(e["bucket"])
                known_lines.append("KNOWN-FINDING: property=%s %s [%s]" % (prop, e["what"], e["id"]))
            others = [b for b in r["buckets"] if b != e["bucket"]]
        else:
            others = r["buckets"]
        for b in others:
            regressions.append((b, "reproducer of %s entry %s fails" % (e["status"], e["id"]),
                                e["reproducer"]))

    ntasks = meta["ntasks"]
    idxs = [i for i in range(ntasks) if not a.only or a.only in meta["names"][i]]
    jobs = [(prop, modname, i, a.tier, seed, excluded, shared) for i in idxs]
    results = []
    if jobs:
        # A wall-clock budget for the whole run: hitting it is inconclusive (exit 2), never a verdict.
        budget = float(os.environ.get("VERIF_TIMEOUT_S", "1800" if a.tier == "quick" else "14400"))
        pool = mp.Pool(min(a.jobs, len(jobs)), maxtasksperchild=1)
        try:
            results = pool.map_async(_run_task, jobs, 1).get(budget)
            pool.close()
        except mp.TimeoutError:
            pool.terminate()
            print("HARNESS-ERROR %s: no result within %.0f s (inconclusive, not a verdict)" % (prop, budget))
            return 2
        finally:
            pool.join()

    evaluations = 0
    nontrivial = set()
    samples = []
    classes = {}
    excl = {}
    per_task = {}
    extra = {}
    violations = {}
    ambient_of = {}
    inconclusive = 0
    for b, m, c in regressions:
        if b not in excluded:
            violations.setdefault(b, (m, c, "regression"))
    for r in results:
        if "error" in r:
            harness_errors.append("task %s: %s" % (r["task"], r["error"]))
            continue
        evaluations += r["evaluations"]
        nontrivial |= r["nontrivial"]
        inconclusive += r.get("inconclusive", 0)
        per_task[r["task"]] = dict(evaluations=r["evaluations"],
                                   distinct_nontrivial=len(r["nontrivial"]),
                                   wall_s=round(r["wall_s"], 2))
        for s in r["samples"]:
            if len(samples) < MAX_SAMPLES * 3:
                samples.append({"task": r["task"], "case": s})
        for k, v in r["classes"].items():
            classes[k] = classes.get(k, 0) + v
        for k, v in r["excluded"].items():
            excl[k] = excl.get(k, 0) + v
        for k, v in r["extra"].items():
            extra.setdefault(r["task"], {})[k] = v
        for b, m, c in r["violations"]:
            if r.get("ambient"):
                m = "%s [ambient process state of this task: %s]" % (m, ",".join(r["ambient"]))
            violations.setdefault(b, (m, {"task": r["task"], "case": c}, r["task"]))
            ambient_of[b] = r.get("ambient") or []

    # spread the samples over the tasks
    picked, seen = [], {}
    for s in samples:
        if seen.get(s["task"], 0) < 2:
            picked.append(s)
            seen[s["task"]] = seen.get(s["task"], 0) + 1
    samples = picked[:12] or samples[:8]

    for line in known_lines:
        print(line)

    rc = 0
    vdir = (os.path.join(VERIF, "replays", "found", prop) if os.path.realpath(REPO) == "/repo"
            else os.path.join("/tmp", "verif-mutant-replays", prop))
    for b, (m, c, tname) in sorted(violations.items()):
        os.makedirs(vdir, exist_ok=True)
        path = os.path.join(vdir, "%s-seed%d.json" % (_slug(b), seed))
        case = c["case"] if isinstance(c, dict) and set(c) == {"task", "case"} else c
        with open(path, "w") as f:
            json.dump({"property": prop, "bucket": b, "message": m, "task": tname,
                       "seed": seed, "tier": a.tier, "ambient": ambient_of.get(b, []), "case": case},
                      f, indent=1, default=repr)
        print("VIOLATION property=%s replay=%s bucket=%s :: %s" % (prop, path, b, str(m)[:300]))
        rc = 1

    wall = time.time() - t0
    if harness_errors:
        for h in harness_errors:
            print("HARNESS-ERROR %s" % h)
        rc = rc or 2

    if not harness_errors and os.path.realpath(REPO) == "/repo":
        ev = {
            "property_id": prop, "tier": a.tier, "seed": seed, "level": "exploration",
            "coverage": {
                "evaluations": evaluations,
                "distinct_nontrivial": len(nontrivial),
                "rule": meta["rule"],
                "samples": samples,
                "classes": dict(sorted(classes.items())),
                "excluded_known_finding_cases": excl,
                "inconclusive": inconclusive,
                "tasks": per_task,
                "exhaustive": bool(meta.get("exhaustive", False)),
                "exhaustive_note": meta.get("exhaustive_note", ""),
                "known_findings_reported": [l for l in known_lines],
                "extra": extra,
            },
            "assumptions": meta["assumptions"],
            "wall_s": round(wall, 2),
            "violations": len(violations),
        }
        for tk in extra.values():
            for k in ("states", "transitions"):
                if isinstance(tk.get(k), int):
                    ev["coverage"][k] = ev["coverage"].get(k, 0) + tk[k]
        os.makedirs(os.path.join(VERIF, "evidence"), exist_ok=True)
        with open(os.path.join(VERIF, "evidence", "%s.json" % prop), "w") as f:
            json.dump(ev, f, indent=1, default=repr)
            f.write("\n")
    print("%s tier=%s seed=%d tasks=%d evaluations=%d distinct_nontrivial=%d violations=%d wall=%.1fs"
          % (prop, a.tier, seed, len(jobs), evaluations, len(nontrivial), len(violations), wall))
    return rc


def _prepare(modname, tier):
    try:
        return importlib.import_module(modname).prepare(tier)
    except BaseException:  # noqa
        return {"__error__": traceback.format_exc()}


def _meta(modname, tier):
    try:
        mod = importlib.import_module(modname)
        ts = mod.tasks(tier)
        return dict(ntasks=len(ts), names=[t[0] for t in ts], rule=mod.RULE,
                    assumptions=list(getattr(mod, "ASSUMPTIONS", [])),
                    exhaustive=getattr(mod, "EXHAUSTIVE", False), has_prepare=hasattr(mod, "prepare"),
                    exhaustive_note=getattr(mod, "EXHAUSTIVE_NOTE", ""))
    except BaseException:  # noqa
        return dict(error=traceback.format_exc())
