"""
Argument forms: the many legitimate ways a caller can hand the same numbers to a numerical API.

    form = draw(forms(n))                  # JSON-able description, e.g. ["nd", "F2", "float64", False]
    arg, shape = build(values, form)       # the object to pass and the shape the result must have
    flat(result, shape)                    # result as a flat list in the order of *values*

*values* is a non-empty list of Python floats (ints for the integer forms, see `integral_ok`).
Forms (scalar forms apply when len(values) == 1):
    ["py", "float"|"int"]                              Python scalar
    ["np", "float64"|"float32"|"int64"|"int32"]       numpy scalar
    ["0d", dtype]                                       0-d array
    ["list"] / ["tuple"]                               Python sequence
    ["nd", layout, dtype, readonly]                     ndarray; layout in
        "1d"      contiguous 1-D
        "strided" every second element of a longer array
        "rev"     negative-stride view
        "C2"      2-D, C order (rows x cols = len(values))
        "F2"      2-D, Fortran order (a transposed view)
        "col"     column vector (n, 1)
        "bcast"   read-only broadcast view when all values are equal (else contiguous)
      readonly=True sets flags.writeable = False: a callee that writes into its argument fails loudly.
Only forms whose dtype can hold the values exactly are offered (integer dtypes need integral values;
float32 needs values that survive the round trip, otherwise the caller must judge at the float32 value).
"""
from hypothesis import strategies as st

SCALAR_FORMS = [["py", "float"], ["np", "float64"], ["0d", "float64"], ["list"], ["nd", "1d", "float64", False]]
INT_SCALAR_FORMS = [["py", "int"], ["np", "int64"], ["np", "int32"], ["0d", "int64"]]
LAYOUTS = ["1d", "1d", "strided", "rev", "C2", "F2", "col", "bcast"]


def integral_ok(values):
    return all(float(v) == int(v) and abs(v) < 2 ** 31 for v in values)


def forms(n, integral=False, float32=False):
    """Strategy of JSON-able forms for a vector of *n* values."""
    dtypes = ["float64", "float64", "float64"]
    if integral:
        dtypes += ["int64", "int32"]
    if float32:
        dtypes += ["float32"]
    alts = [st.just(["list"]), st.just(["tuple"]),
            st.tuples(st.just("nd"), st.sampled_from(LAYOUTS), st.sampled_from(dtypes), st.booleans()).map(list),
            st.tuples(st.just("nd"), st.sampled_from(LAYOUTS), st.sampled_from(dtypes), st.booleans()).map(list)]
    if n == 1:
        alts += [st.sampled_from(SCALAR_FORMS + (INT_SCALAR_FORMS if integral else []))] * 2
    return st.one_of(*alts)


def build(values, form):
    """(argument object, expected result shape) for *values* in the given *form*."""
    import numpy as np
    kind = form[0]
    n = len(values)
    if kind == "py":
        return (int(values[0]) if form[1] == "int" else float(values[0])), ()
    if kind == "np":
        return getattr(np, form[1])(values[0]), ()
    if kind == "0d":
        return np.array(values[0], dtype=form[1]), ()
    if kind == "list":
        return [float(v) if not isinstance(v, int) else v for v in values], (n,)
    if kind == "tuple":
        return tuple(values), (n,)
    _, layout, dtype, readonly = form
    base = np.array(values, dtype=dtype)
    if layout == "1d":
        a = base.copy()
    elif layout == "strided":
        big = np.zeros(2 * n, dtype=dtype)
        big[::2] = base
        big[1::2] = base[::-1]          # garbage in between
        a = big[::2]
    elif layout == "rev":
        a = base[::-1].copy()[::-1]
    elif layout in ("C2", "F2"):
        rows = 2 if n % 2 == 0 and n >= 2 else 1
        if layout == "C2":
            a = base.reshape(rows, n // rows).copy()
        else:
            a = np.asfortranarray(base.reshape(rows, n // rows)) if rows > 1 else base.reshape(1, n).T.copy().T
            if rows == 1 and n > 1:
                a = np.asfortranarray(base.reshape(n, 1)).T      # (1, n) view of a column: non C-contiguous for n>1
    elif layout == "col":
        a = base.reshape(n, 1).copy()
    elif layout == "bcast":
        if n > 1 and all(v == values[0] for v in values):
            a = np.broadcast_to(np.array(values[0], dtype=dtype), (n,))
        else:
            a = base.copy()
    else:
        raise ValueError(layout)
    if readonly and a.flags.writeable:
        a.flags.writeable = False
    return a, tuple(a.shape)


def flat(result, shape):
    """Flatten a result of the expected shape to a list ordered like the input values (row-major)."""
    import numpy as np
    r = np.asarray(result)
    if tuple(r.shape) != tuple(shape):
        raise ValueError("result has shape %r, argument had shape %r" % (tuple(r.shape), tuple(shape)))
    return [x for x in r.reshape(-1).tolist()] if r.shape else [r.item()]
