import sys
from pbt.runner import main
sys.exit(main())
