"""
Guard against a library call clobbering its arguments (arrays, lists, dicts passed by the caller).

    with unchanged("c04", case, wavelength=w, weights=x):
        result = f(w, x)

raises Violation("<prefix>:argument-modified:<name>") if an argument differs after the call.
"""
import copy

from .runner import Violation


def _snap(x):
    try:
        import numpy as np
        if isinstance(x, np.ndarray):
            return x.copy()
    except Exception:  # noqa
        pass
    if isinstance(x, (list, dict, set)):
        return copy.deepcopy(x)
    return x


def _same(a, b):
    try:
        import numpy as np
        if isinstance(a, np.ndarray) or isinstance(b, np.ndarray):
            return (isinstance(a, np.ndarray) and isinstance(b, np.ndarray) and a.shape == b.shape
                    and a.dtype == b.dtype and bool(np.array_equal(a, b, equal_nan=True)))
    except TypeError:
        return bool(np.array_equal(a, b))
    except Exception:  # noqa
        pass
    if isinstance(a, dict) and isinstance(b, dict):
        return list(a.items()) == list(b.items()) and all(x is y for x, y in zip(a, b))
    return a == b


class unchanged(object):
    def __init__(self, prefix, case, **named):
        self.prefix, self.case, self.named = prefix, case, named
        self.before = dict((k, _snap(v)) for k, v in named.items())

    def __enter__(self):
        return self

    def __exit__(self, et, ev, tb):
        if et is not None:
            return False
        for k, v in self.named.items():
            if not _same(self.before[k], v):
                raise Violation("%s:argument-modified:%s" % (self.prefix, k),
                                "the call changed its argument %s in place: %r -> %r" % (k, self.before[k], v), self.case)
        return False


def _reach(x, out, depth=0):
    try:
        import numpy as np
        nd = np.ndarray
    except Exception:  # noqa
        nd = ()
    if isinstance(x, nd) or isinstance(x, list):
        out.append(x)
    elif isinstance(x, dict) and depth < 2:
        out.append(x)
        for v in x.values():
            _reach(v, out, depth + 1)
    elif isinstance(x, tuple) and depth < 2:
        for v in x:
            _reach(v, out, depth + 1)


def call_unchanged(prefix, case, fn):
    """Run the zero-argument closure *fn*; every array, list or dict it closes over (the
    arguments of the library call inside it) must be unchanged afterwards."""
    objs = []
    for cell in (fn.__closure__ or ()):
        try:
            _reach(cell.cell_contents, objs)
        except ValueError:
            pass
    before = [_snap(o) for o in objs]
    result = fn()
    for b, o in zip(before, objs):
        if not _same(b, o):
            raise Violation("%s:argument-modified" % prefix,
                            "the call changed one of its arguments in place: %r -> %r" % (b, o), case)
    return result
