"""
Derivation trees of the documented formula grammar, their renderings and their
reference semantics.  The composition of a tree is known before the string
exists; nothing here parses a formula.

JSON-able node shapes
    atom      ["a", [sym, iso, charge], explicit_one, count_str|None]
    implicit  ["i", count_str|None, [atom, ...]]
    explicit  ["e", [group, ...], [sep, ...], count_str|None, [pad, pad, pad, pad]]
    compound  {"g": [group, ...], "s": [sep, ...], "d": None | [count_str, suffix]}

count_str is a spelling of the documented `count`:
    number   :: [1-9][0-9]*
    fraction :: ([1-9][0-9]* | 0)? '.' [0-9]*        (value > 0 here)
"""
from fractions import Fraction

from hypothesis import strategies as st

from .atoms import DT, spec_key

SEPS = ["", " ", "+", " + ", "+ ", " +", "  "]


# ----------------------------------------------------------------------
# strategies
def count_str(allow_none=True, max_int=9999):
    whole = st.integers(1, max_int).map(str)
    small = st.integers(1, 12).map(str)
    digits = st.text("0123456789", min_size=0, max_size=6)
    nz = st.tuples(st.text("0123456789", min_size=0, max_size=5), st.sampled_from("123456789"),
                   st.text("0123456789", min_size=0, max_size=3)).map(lambda t: "".join(t)[:6])
    frac_pos_int = st.tuples(st.integers(1, 999).map(str), digits).map(lambda t: t[0] + "." + t[1])
    frac_zero_int = st.tuples(st.sampled_from(["", "0"]), nz).map(lambda t: t[0] + "." + t[1])
    alts = [small, small, whole, frac_pos_int, frac_zero_int,
            st.sampled_from(["2", "2.0", ".5", "0.5", "12.", "1", "1.0", "1."])]
    if allow_none:
        alts = [st.none(), st.none()] + alts
    return st.one_of(*alts)


def atom_node(pool, atoms=None):
    a = atoms if atoms is not None else pool.atom()
    return st.tuples(a, st.booleans(), count_str()).map(lambda t: ["a", t[0], t[1], t[2]])


def implicit_node(pool, atoms=None, max_atoms=4):
    return st.tuples(count_str(), st.lists(atom_node(pool, atoms), min_size=1, max_size=max_atoms)
                     ).map(lambda t: ["i", t[0], t[1]])


def _pads():
    return st.one_of(st.just(["", "", "", ""]),
                     st.lists(st.sampled_from(["", "", " "]), min_size=4, max_size=4))


def groups(pool, depth, atoms=None, max_groups=4, max_atoms=4):
    """(groups, seps) of a composite, nested to at most *depth* levels."""
    leaf = implicit_node(pool, atoms, max_atoms)
    if depth <= 0:
        g = leaf
    else:
        inner = groups(pool, depth - 1, atoms, max(2, max_groups - 1), max_atoms)
        explicit = st.tuples(inner, count_str(), _pads()).map(
            lambda t: ["e", t[0][0], t[0][1], t[1], t[2]])
        g = st.one_of(leaf, leaf, explicit)
    plain = st.lists(g, min_size=1, max_size=max_groups).flatmap(
        lambda gs: st.lists(st.sampled_from(SEPS), min_size=len(gs) - 1, max_size=len(gs) - 1
                            ).map(lambda ss: (gs, ss)))
    # an ECHO: one group of the sequence is moved to the front and written once more at the end with another count
    # ('(H2O)2 NaCl (H2O)3', '2H2O + 3H2O'): equal groups inside one formula are where a memo of sub-results would bite
    echo = st.one_of(st.none(), st.none(), st.none(),
                     st.tuples(st.integers(0, 7), count_str(), st.sampled_from(SEPS)))
    return st.tuples(plain, echo).map(_echo)


def _echo(t):
    (gs, ss), e = t
    if e is None:
        return gs, ss
    import copy
    j = e[0] % len(gs)
    first = gs[j]
    twin = copy.deepcopy(first)
    twin[1 if twin[0] == "i" else 3] = e[1]
    rest = [g for k, g in enumerate(gs) if k != j]
    return [first] + rest + [twin], list(ss) + [e[2]]


def density_tag():
    return st.one_of(st.none(), st.tuples(count_str(allow_none=False, max_int=25),
                                          st.sampled_from(["", "n", "i"])).map(list))


def compound(pool, depth=3, atoms=None, max_groups=4, max_atoms=4, density=True):
    d = density_tag() if density else st.none()
    return st.tuples(groups(pool, depth, atoms, max_groups, max_atoms), d).map(
        lambda t: {"g": t[0][0], "s": t[0][1], "d": t[1]})


def tower(pool, max_height, atoms=None):
    """A small compound wrapped in many explicit groups (deep nesting)."""
    base = groups(pool, 0, atoms, 2, 3)
    return st.tuples(base, st.lists(st.tuples(count_str(), _pads()), min_size=1, max_size=max_height),
                     density_tag()).map(_mk_tower)


def _mk_tower(t):
    (gs, ss), layers, d = t
    for c, pads in layers:
        gs, ss = [["e", gs, ss, c, pads]], []
    return {"g": gs, "s": ss, "d": d}


# ----------------------------------------------------------------------
# rendering
def _has_lead(g):
    return g[0] == "i" and g[1] is not None


def fix_sep(prev, nxt, sep):
    """Force the separator where juxtaposition would change the derivation."""
    if _has_lead(nxt):
        # a leading count would attach to the previous atom / closing bracket
        if prev[0] == "e" and prev[3] is None:
            # '(X) 2Y' : the space is swallowed by the bracket and 2 binds to it
            return sep if "+" in sep else "+"
        return sep if sep != "" else " "
    if _has_lead(prev) and nxt[0] == "i":
        # 'count element+' extends over every juxtaposed atom
        return sep if sep != "" else " "
    return sep


def render_atom(node):
    _, (sym, iso, charge), one, cnt = node
    s = sym
    if iso:
        s += "[%d]" % iso
    if charge:
        mag = abs(charge)
        s += "{%s%s}" % (str(mag) if (mag != 1 or one) else "", "+" if charge > 0 else "-")
    if cnt is not None:
        s += cnt
    return s


def render_group(g):
    if g[0] == "i":
        return (g[1] or "") + "".join(render_atom(a) for a in g[2])
    _, gs, ss, cnt, pads = g
    return pads[0] + "(" + pads[1] + render_groups(gs, ss) + pads[2] + ")" + (cnt or "")
    # note: pads[3] (after the bracket) is not rendered: ') 2' binds 2 to the bracket


def render_groups(gs, ss):
    out = render_group(gs[0])
    for k in range(1, len(gs)):
        out += fix_sep(gs[k - 1], gs[k], ss[k - 1]) + render_group(gs[k])
    return out


def render(tree):
    s = render_groups(tree["g"], tree["s"])
    # leading pad of a first explicit group would be leading white space of the
    # formula; the grammar does not mention it, drop it.
    s = s.lstrip(" ")
    if tree["d"] is not None:
        s += "@" + tree["d"][0] + tree["d"][1]
    return s


# ----------------------------------------------------------------------
# reference semantics
def cval(c):
    return Fraction(1) if c is None else Fraction(c)


def _add(total, part, mult):
    for k, v in part.items():
        total[k] = total.get(k, 0) + v * mult


def group_composition(pool, g):
    total = {}
    if g[0] == "i":
        for a in g[2]:
            k = spec_key(pool, a[1])
            total[k] = total.get(k, 0) + cval(a[3])
        return dict((k, v * cval(g[1])) for k, v in total.items())
    _add(total, groups_composition(pool, g[1]), cval(g[3]))
    return total


def groups_composition(pool, gs):
    total = {}
    for g in gs:
        _add(total, group_composition(pool, g), 1)
    return total


def composition(pool, tree):
    """{(Z, A, charge): Fraction} of the tree."""
    return groups_composition(pool, tree["g"])


def depth(gs):
    d = 0
    for g in gs:
        if g[0] == "e":
            d = max(d, 1 + depth(g[1]))
    return d


def tree_depth(tree):
    return depth(tree["g"])


def atoms_of(gs):
    for g in gs:
        if g[0] == "i":
            for a in g[2]:
                yield a, g
        else:
            for x in atoms_of(g[1]):
                yield x


def net_charge(comp):
    return sum(v * k[2] for k, v in comp.items())


# ----------------------------------------------------------------------
# structure (for the print/parse round trip): nested tuples of (count, key|structure)
def tree_structure(pool, gs):
    """The structure the documented grammar gives the groups: a group with
    count 1 dissolves into its parent, juxtaposed implicit groups stay flat."""
    out = []
    for g in gs:
        if g[0] == "i":
            inner = [(cval(a[3]), spec_key(pool, a[1])) for a in g[2]]
            c = cval(g[1])
        else:
            inner = tree_structure(pool, g[1])
            c = cval(g[3])
        if c == 1:
            out.extend(inner)
        else:
            out.append((c, tuple(inner)))
    return tuple(out)
