"""
High-precision reference for neutron activation (properties C14, C15).

Independent of periodictable/activation.py: the rows are read from
activation.dat with a separate reader, and each product's activity is the
*exact solution of the documented reaction chain*, evaluated with the stdlib
``decimal`` module at >= 120 significant digits.

Chains (activation.py module docstring: "Accounts for burnup and 2n, g
production", "Reaction = b indicates production via decay from an activation
produced parent"; activation.dat header: columns "b or 2n mode production:
t1/2 of parent, cross-section (b) of 2n precursor & burnup X-sect"):

  single capture with burn-up ('act', 'n,p', 'n,a', 'n,2n', "n,n'")
      N1' = -s1 N1                       target, N1(0) = N0
      N2' =  s1 N1 - (lam + s2) N2       product, decays (lam) and burns up (s2)
      activity = lam N2(t) = N0 s1 lam (e^{-s1 t} - e^{-(lam+s2) t}) / (lam + s2 - s1)

  two-step capture ('2n')
      N1' = -s1 N1                       target
      N2' =  s1 N1 - (lamp + s2) N2      intermediate: decays (lamp) or captures (s2)
      N3' =  s2 N2 - lam N3              product
      activity = lam N3(t) = N0 s1 s2 lam * sum_i e^{-k_i t} / prod_{j!=i}(k_j - k_i),
                 k = (s1, s2 + lamp, lam)          (Bateman)

  decay of an activated parent ('b'; burn-up not calculated per the table comments)
      Np' = P - lamp Np                  parent produced at the constant rate P = N0 s1
      Nd' = lamp Np - lam Nd             daughter
      activity = lam Nd(t) = P (1 - (lamp e^{-lam t} - lam e^{-lamp t}) / (lamp - lam))

  rest:  activity(t_rest) = activity * 2^(-t_rest / T_half)

Unit constants are those the code documents: cross sections in barn (1e-24
cm^2), rates per hour (3600 s/h), N0 s1 expressed in microcurie as
flux * sigma * 1e-24 * mass / A * 1.6278e19 with A the mass number.
sigma1 = thermal + resonance/Cd_ratio (Cd_ratio >= 1, else thermal only);
sigma2 likewise from the 'parent' cross-section columns; fast reactions use
fluence/fast_ratio for s1 (and are absent when fast_ratio == 0); s2 always
uses the thermal fluence.

Nothing in this module imports periodictable except ``data_path()`` which asks
it only for its directory.
"""
from decimal import Decimal as D, getcontext, localcontext
import math
import os
import re

PREC = 120
EPS = 2.0 ** -52          # double precision unit roundoff (spacing)

ROW_FIELDS = ["index", "Z", "symbol", "A", "isotope", "abundance", "daughter", "Thalf", "Thalf_unit",
              "isomer", "percentIT", "reaction", "fast", "thermalXS", "gT", "resonance", "Thalf_hrs",
              "Thalf_str", "Thalf_parent", "thermalXS_parent", "resonance_parent", "comments"]


def data_path():
    import periodictable
    return os.path.join(os.path.dirname(periodictable.__file__), "activation.dat")


def _unquote(s):
    s = s.strip("\r\n")
    if len(s) >= 2 and s[0] == '"' and s[-1] == '"':
        s = s[1:-1]
    return s


def _num(s):
    s = s.strip()
    return float(s) if s else 0.0


def read_rows(path=None):
    """Naive reader of activation.dat.

    A data line is a tab separated line whose first cell is an element symbol
    (one capital letter, optional lower-case letter) and whose cells 1, 2, 4
    are integers.  Returns a list of dicts in file order; 'pos' is the 0-based
    position of the row among the rows of the same target isotope.
    """
    path = path or data_path()
    rows = []
    seen = {}
    with open(path, "r") as f:
        for lineno, line in enumerate(f, 1):
            c = [_unquote(x) for x in line.rstrip("\n").split("\t")]
            if len(c) < 23:
                continue
            sym = c[0].strip()
            if not re.match(r"^[A-Z][a-z]?$", sym):
                continue
            try:
                idx, z, a = int(c[1]), int(c[2]), int(c[4])
            except ValueError:
                continue
            r = {
                "line": lineno, "index": idx, "Z": z, "symbol": c[3].strip(), "A": a,
                "isotope": c[5], "abundance": _num(c[6]), "daughter": c[7],
                "Thalf_str": " ".join((c[8], c[9])), "Thalf_text": c[8].strip(), "Thalf_unit": c[9].strip(),
                "reaction": c[12], "fast": c[13] == "y",
                "thermalXS": _num(c[14]), "gT": _num(c[15]), "resonance": _num(c[16]),
                "Thalf_hrs": _num(c[17]), "Thalf_parent": _num(c[19]),
                "thermalXS_parent": _num(c[20]), "resonance_parent": _num(c[21]),
                "comments": c[22].replace('"', "").strip(),
            }
            key = (z, a)
            r["pos"] = seen.get(key, 0)
            seen[key] = r["pos"] + 1
            r["row"] = len(rows)
            rows.append(r)
    return rows


# ----------------------------------------------------------------------
# Consistency of the table with itself.  No single cell is trusted: a number that
# the table gives twice (the parent half-life of a 'b'/'2n' row and the half-life
# of the row that produces that parent; a half-life as value+unit and in hours; the
# half-life of one nuclide under several targets) has to agree with itself.
# The relations were tabulated on the pinned tree; rows that already disagree
# there are listed here (they are reported as notes, not asserted).
HOURS = {"s": 1.0 / 3600, "m": 1.0 / 60, "h": 1.0, "d": 24.0, "y": 8760.0}   # the table uses 365-day years

PREEXISTING = {
    # production cross section of the b/2n row differs from the row that makes its parent
    # (keys: target, daughter, the table's own row index)
    "parent-cross-section": {("P-31", "P-33", 41), ("Ge-76", "Ge-78s", 169), ("Rh-103", "Rh-105", 262),
                             ("Pd-110", "Ag-111", 271), ("Sn-124", "Sb-125", 310), ("Te-130", "Te-132", 329),
                             ("Ce-136", "La-137", 374), ("Au-198", "Au-199", 496)},
    # burn-up cross section of the 2n intermediate differs from the intermediate's own row
    "intermediate-cross-section": {("P-31", "P-33", 41), ("Te-130", "Te-132", 329)},
    # value+unit says 69.4 d, the hours column says 69.4
    "halflife-units": {("W-186", "W-188", 463)},
    # one nuclide, different half-lives in different rows
    "daughter-halflife": {"O-19", "Ne-23", "Mg-27", "Al-28", "S-37", "Sc-47", "Ti-51", "Co-60m+", "Zn-69ms", "Rb-88",
                          "Te-127", "Ba-137m", "Sm-151", "Tm-171", "Au-199"},
}


def feeding_row(rows, i):
    """The row that produces the radioactive parent of the 'b'/'2n' row i: the table
    header says the parent is on the line directly above; where that line is itself a
    decay-fed ('b') row the chain continues upwards to the activation step."""
    j = i - 1
    while j > 0 and rows[j]["reaction"] == "b":
        j -= 1
    return rows[j]


def table_consistency(rows):
    """(violations, notes): violations = [(bucket suffix, message)] of relations that
    hold for every row of the pinned table; notes = pre-existing disagreements."""
    bad, notes = [], []

    def report(kind, key, msg):
        if key in PREEXISTING.get(kind, ()):
            notes.append("%s: %s" % (kind, msg))
        else:
            bad.append((kind + "-mismatch", msg))

    for i, r in enumerate(rows):
        label = "%s -> %s (%s, row %d)" % (r["isotope"], r["daughter"], r["reaction"], r["index"])
        key = (r["isotope"], r["daughter"], r["index"])
        if r["reaction"] in ("b", "2n"):
            f = feeding_row(rows, i)
            flabel = "%s -> %s (row %d)" % (f["isotope"], f["daughter"], f["index"])
            if r["Thalf_parent"] != f["Thalf_hrs"]:
                report("parent-halflife", key, "%s uses a parent half-life of %r h, but %s, which makes that parent, "
                       "tabulates %r h" % (label, r["Thalf_parent"], flabel, f["Thalf_hrs"]))
            if (r["thermalXS"], r["resonance"]) != (f["thermalXS"], f["resonance"]):
                report("parent-cross-section", key, "%s produces its parent with (thermal, resonance) = %r b, %s says %r b"
                       % (label, (r["thermalXS"], r["resonance"]), flabel, (f["thermalXS"], f["resonance"])))
            if r["reaction"] == "2n" and rows[i - 1]["reaction"] != "b" and \
                    (r["thermalXS_parent"], r["resonance_parent"]) != (f["thermalXS_parent"], f["resonance_parent"]):
                report("intermediate-cross-section", key, "%s captures on the intermediate with %r b, %s burns it up with %r b"
                       % (label, (r["thermalXS_parent"], r["resonance_parent"]), flabel,
                          (f["thermalXS_parent"], f["resonance_parent"])))
        try:
            hours = float(r["Thalf_text"]) * HOURS[r["Thalf_unit"]]
        except (ValueError, KeyError):
            bad.append(("halflife-units-mismatch", "%s: half-life %r %r is not a number with a unit s/m/h/d/y"
                        % (label, r["Thalf_text"], r["Thalf_unit"])))
        else:
            if abs(hours - r["Thalf_hrs"]) > 1e-5 * r["Thalf_hrs"]:
                report("halflife-units", key, "%s: half-life %s %s = %r h, the hours column says %r"
                       % (label, r["Thalf_text"], r["Thalf_unit"], hours, r["Thalf_hrs"]))
    by_name = {}
    for r in rows:
        by_name.setdefault(r["daughter"], {}).setdefault(r["Thalf_hrs"], []).append(r["isotope"])
    for name in sorted(by_name):
        if len(by_name[name]) > 1:
            report("daughter-halflife", name, "%s has several half-lives: %s"
                   % (name, "; ".join("%r h from %s" % (t, ",".join(sorted(set(w)))) for t, w in sorted(by_name[name].items()))))
    return bad, notes


def crossings_2n(row, Cd_ratio):
    """Fluences (n/cm2/s, floats) at which two of the three rates of a '2n' chain
    coincide, from the table values: [(label, fluence)] within [1, 1e18]."""
    with localcontext() as ctx:
        ctx.prec = 50
        epi = (1 / D(Cd_ratio)) if Cd_ratio >= 1 else D(0)
        c = D("1e-24") * 3600
        s1 = (D(row["thermalXS"]) + epi * D(row["resonance"])) * c          # per unit fluence
        s2 = (D(row["thermalXS_parent"]) + epi * D(row["resonance_parent"])) * c
        lam = _ln2() / D(row["Thalf_hrs"])
        lamp = _ln2() / D(row["Thalf_parent"])
        out = []
        if s1 > 0:
            out.append(("target-burnup=product-decay", lam / s1))
        if s2 > 0 and lam > lamp:
            out.append(("intermediate-removal=product-decay", (lam - lamp) / s2))
        if s1 > s2:
            out.append(("target-burnup=intermediate-removal", lamp / (s1 - s2)))
        return [(n, float(f)) for n, f in out if 1 <= f <= D("1e18")]


def shared_daughters(rows):
    """Daughter names that activation.dat lists under two or more different parent
    ELEMENTS: [(daughter, parent1, parent2, [all tabulated half-lives of that
    daughter under the two parents, hours])], one entry per pair of parents, sorted."""
    d = {}
    for r in rows:
        d.setdefault(r["daughter"], {}).setdefault(r["symbol"], set()).add(r["Thalf_hrs"])
    out = []
    for name in sorted(d):
        parents = sorted(d[name])
        for i in range(len(parents)):
            for j in range(i + 1, len(parents)):
                hl = sorted(d[name][parents[i]] | d[name][parents[j]])
                out.append((name, parents[i], parents[j], hl))
    return out


def branch(row):
    """'b', '2n' or 'act' (single capture with burn-up: every other reaction)."""
    return row["reaction"] if row["reaction"] in ("b", "2n") else "act"


# ----------------------------------------------------------------------
def _ln2():
    return D(2).ln()


def rates(row, fluence, Cd_ratio, fast_ratio):
    """Decimal rates of the chain (per hour) under the current context.
    Returns dict(s1, s2, lam, lamp, sigma1, sigma2, flux) or None when the
    reaction is omitted (fast reaction with fast_ratio == 0)."""
    if row["fast"] and fast_ratio == 0:
        return None
    fl = D(fluence)
    epi = (1 / D(Cd_ratio)) if Cd_ratio >= 1 else D(0)
    sigma1 = D(row["thermalXS"]) + epi * D(row["resonance"])
    sigma2 = D(row["thermalXS_parent"]) + epi * D(row["resonance_parent"])
    flux = fl / D(fast_ratio) if row["fast"] else fl
    c = D("1e-24") * 3600
    ln2 = _ln2()
    out = dict(flux=flux, sigma1=sigma1, sigma2=sigma2, s1=flux * sigma1 * c, s2=fl * sigma2 * c,
               lam=ln2 / D(row["Thalf_hrs"]))
    out["lamp"] = ln2 / D(row["Thalf_parent"]) if row["Thalf_parent"] else None
    return out


def _exp(x):
    return x.exp()


def _bateman_terms(ks, t):
    """terms_i = e^{-k_i t} / prod_{j != i} (k_j - k_i)"""
    out = []
    for i, ki in enumerate(ks):
        den = D(1)
        for j, kj in enumerate(ks):
            if j != i:
                den *= (kj - ki)
        out.append(_exp(-ki * t) / den)
    return out


def _separate(ks, prec):
    """Make the rates pairwise distinct by a relative shift of 10^-(prec/3);
    the exact solution is continuous in the rates, the shift changes it by a
    relative amount of the same order."""
    ks = list(ks)
    delta = D(10) ** (-(prec // 3))
    changed = True
    n = 0
    while changed:
        changed = False
        for i in range(len(ks)):
            for j in range(i):
                if ks[i] == ks[j]:
                    n += 1
                    ks[i] = ks[i] * (1 + n * delta) if ks[i] != 0 else n * delta
                    changed = True
    return ks


def _solve(row, fluence, Cd_ratio, fast_ratio, mass, exposure, prec):
    """(activity at end of exposure, digits lost to cancellation, detail) at precision prec."""
    with localcontext() as ctx:
        ctx.prec = prec
        r = rates(row, fluence, Cd_ratio, fast_ratio)
        if r is None:
            return None
        t = D(exposure)
        root = r["flux"] * r["sigma1"] * D("1e-24") * D(mass) / D(row["A"]) * D("1.6278e19")
        br = branch(row)
        lam = r["lam"]
        if br == "act":
            ks = _separate([r["s1"], lam + r["s2"]], prec)
            terms = _bateman_terms(ks, t)            # e^{-a t}/(b-a), e^{-b t}/(a-b)
            s = sum(terms)
            val = root * lam * s
        elif br == "2n":
            ks = _separate([r["s1"], r["s2"] + r["lamp"], lam], prec)
            terms = _bateman_terms(ks, t)
            s = sum(terms)
            val = root * lam * r["s2"] * s
        else:
            ks = _separate([lam, r["lamp"]], prec)
            l, lp = ks
            terms = [D(1), -lp * _exp(-l * t) / (lp - l), l * _exp(-lp * t) / (lp - l)]
            s = sum(terms)
            val = root * s
        big = max(abs(x) for x in terms)
        if s == 0:
            lost = prec
        else:
            lost = max(0, int((big / abs(s)).log10()) + 1) if big > abs(s) else 0
        return val, lost, dict(r=r, root=root, terms=terms, ks=ks, s=s, t=t)


def solve(row, fluence, Cd_ratio, fast_ratio, mass, exposure):
    """Exact activity (Decimal, microcurie) at the end of the exposure, or None
    when the reaction is omitted.  Precision is raised until at least 40
    correct digits remain after cancellation."""
    prec = PREC
    while True:
        res = _solve(row, fluence, Cd_ratio, fast_ratio, mass, exposure, prec)
        if res is None:
            return None
        val, lost, det = res
        # _separate() costs prec/3 digits when it had to act
        if prec - lost >= 40 or prec >= 3840:
            det["prec"] = prec
            det["lost"] = lost
            return val, det
        prec *= 2


def rest_factor(row, rest):
    """2^(-rest/T_half) as Decimal."""
    with localcontext() as ctx:
        ctx.prec = PREC
        return (-(D(rest) / D(row["Thalf_hrs"])) * _ln2()).exp()


def activity(row, fluence, Cd_ratio, fast_ratio, mass, exposure, rest_times):
    """List of Decimal activities (one per rest time), or None if omitted."""
    res = solve(row, fluence, Cd_ratio, fast_ratio, mass, exposure)
    if res is None:
        return None
    val, _ = res
    with localcontext() as ctx:
        ctx.prec = PREC
        return [val * rest_factor(row, t) for t in rest_times]


# ----------------------------------------------------------------------
# Forward error bound of the formulation used by activation.py
def kappa(row, fluence, Cd_ratio, fast_ratio, exposure, form="auto"):
    """Relative forward-error amplification kappa of the floating-point
    formulation of the branch: a rounding-error analysis of the operation
    sequence gives |computed - exact| <= c * EPS * kappa * |exact| with a small
    constant c (the classification uses c = 64).

    The rates k_i entering the formulas are themselves rounded (relative EPS
    each), every difference (k_j - k_i) therefore carries a relative error
    EPS (|k_i| + |k_j|) / |k_j - k_i|, every exponential e^{-k t} a relative
    error EPS (1 + k t), and the sum of the terms an absolute error
    EPS * sum |term_i|:

        kappa = sum_i |term_i| (6 + k_i t) / |sum_i term_i| + 4 sum_i cond_i,
        cond_i = |k_i dF/dk_i / F| of the exact solution F (the differences k_j - k_i are
        computed accurately from the rounded rates, and F is smooth in the rates, so the
        per-term amplification (|k_i|+|k_j|)/|k_j-k_i| cancels between terms and is not part
        of the bound - it would hide errors of 1e-6 next to coincident rates)

    '2n' adds (s2 + lamp)/s2: the code recovers the capture rate s2 of the
    intermediate as (s2 + lamp) - lamp.
    'b' (expm1 form  lam expm1(-lamp t) - lamp expm1(-lam t)) uses the two
    products as terms.
    'act' form "exp":   W (exp(-U) - exp(-V));  form "expm1": W (expm1(-U) - expm1(-V)).
    Returns a float (inf when the exact value is 0 or rates coincide).
    """
    with localcontext() as ctx:
        ctx.prec = PREC
        r = rates(row, fluence, Cd_ratio, fast_ratio)
        if r is None:
            return 0.0
        t = D(exposure)
        br = branch(row)
        lam = r["lam"]

        def diffamp(a, b):
            if a == b:
                return D("Infinity")
            return (abs(a) + abs(b)) / abs(a - b)

        try:
            if br == "2n":
                ks = [r["s1"], r["s2"] + r["lamp"], lam]
                if len(set(ks)) < 3 or r["s2"] == 0:
                    return float("inf")
                terms = _bateman_terms(ks, t)
                s = sum(terms)
                if s == 0:
                    return float("inf")
                # Rounding of the evaluation: each term is computed from the (rounded) rates
                # with a few eps relative error (a difference of two floats is itself
                # accurate to eps/2 relative to its operands), the exponent adds k_i t eps.
                tot = D(0)
                for i, ti in enumerate(terms):
                    tot += abs(ti) * (6 + ks[i] * t)
                # Rounding of the rates themselves: the exact solution is a smooth
                # (divided-difference) function of the rates, so a relative perturbation eps
                # of rate i changes it by cond_i * eps, with cond_i = |k_i dF/dk_i / F|
                # (finite difference in decimal) - NOT by the (|ki|+|kj|)/|kj-ki| of one term.
                cond = D(0)
                h = D("1e-40")
                for i in range(3):
                    kk = list(ks)
                    kk[i] = ks[i] * (1 + h)
                    cond += abs(sum(_bateman_terms(kk, t)) - s) / (h * abs(s))
                k = tot / abs(s) + 4 * cond + 2 * (r["s2"] + r["lamp"]) / r["s2"] + 8
            elif br == "b":
                lp = r["lamp"]
                if lp == lam:
                    return float("inf")
                a = lam * ((-lp * t).exp() - 1)
                b = lp * ((-lam * t).exp() - 1)
                if a == b:
                    return float("inf")
                # the quotient by (lamp - lam) is accurate relative to the rounded rates; the
                # solution is smooth in the rates (condition ~ 1 + rate*t)
                k = 3 * (abs(a) + abs(b)) / abs(a - b) + 4 * (2 + (lp + lam) * t) + 8
            else:
                a_, b_ = r["s1"], lam + r["s2"]
                if a_ == b_:
                    return float("inf")
                U, V = a_ * t, b_ * t
                if form == "expm1":
                    x, y = (-U).exp() - 1, (-V).exp() - 1
                    k = (abs(x) * 2 + abs(y) * 2) / abs(x - y)
                else:
                    x, y = (-U).exp(), (-V).exp()
                    k = (x * (2 + U) + y * (2 + V)) / abs(x - y)
                # W = lam/(lam - s1 + s2), V = (s2 + lam) t
                k += (lam + r["s1"] + r["s2"]) / abs(b_ - a_) + 8
            return float(k)
        except (ZeroDivisionError, ArithmeticError):
            return float("inf")


def small_argument(row, fluence, Cd_ratio, fast_ratio, exposure):
    """True when both exponents of the single-capture solution are below 1e-10
    (the regime for which activation.py switches to a series)."""
    with localcontext() as ctx:
        ctx.prec = 40
        r = rates(row, fluence, Cd_ratio, fast_ratio)
        if r is None or branch(row) != "act":
            return False
        t = D(exposure)
        return r["s1"] * t < D("1e-10") and (r["lam"] + r["s2"]) * t < D("1e-10")


def total_activity(products, t):
    """sum_i A_i 2^(-t/T_i) in Decimal; products = [(A_i float or Decimal, T_i hours)]."""
    with localcontext() as ctx:
        ctx.prec = 60
        ln2 = _ln2()
        tt = D(t)
        tot = D(0)
        for a, T in products:
            tot += D(a) * (-(tt / D(T)) * ln2).exp()
        return tot


def total_slope(products, t):
    """d/dt of total_activity (negative)."""
    with localcontext() as ctx:
        ctx.prec = 60
        ln2 = _ln2()
        tt = D(t)
        tot = D(0)
        for a, T in products:
            l = ln2 / D(T)
            tot -= l * D(a) * (-(tt * l)).exp()
        return tot
