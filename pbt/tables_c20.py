"""
Independent, deliberately naive readers of the five ancillary tables (C20).

Every reader works on the *text* of the file in the tree under test (the
package directory of the imported periodictable, so VERIF_REPO is honoured);
nothing is imported from the module that owns the table, nothing is eval'ed.
Keys are position free: rows are keyed by the symbol written in the row (or in
the '#Sym' comment next to it), never by their index.

    cordero(pkg)        {symbol: (radius_text, uncertainty_text|None)}   first spin state only
    crystal(pkg)        {symbol: dict|None}                               slots of the list, by '#Sym' comment
    spectral(pkg)       {symbol: (K_alpha_text, K_beta1_text)}
    magnetic(pkg)       {symbol: {charge: {'j0'|'j2'|'j4'|'j6'|'J': [7-tuple of float, ...]}}}
    waaskirf(pkg)       {label: {'Z': int, 'a': [5 floats], 'b': [5 floats], 'c': float}}
"""
import os
import re

SYMBOLS = ("n H He Li Be B C N O F Ne Na Mg Al Si P S Cl Ar K Ca Sc Ti V Cr Mn Fe Co Ni Cu Zn Ga Ge As Se Br Kr "
           "Rb Sr Y Zr Nb Mo Tc Ru Rh Pd Ag Cd In Sn Sb Te I Xe Cs Ba La Ce Pr Nd Pm Sm Eu Gd Tb Dy Ho Er Tm Yb Lu "
           "Hf Ta W Re Os Ir Pt Au Hg Tl Pb Bi Po At Rn Fr Ra Ac Th Pa U Np Pu Am Cm Bk Cf Es Fm Md No Lr Rf Db Sg "
           "Bh Hs Mt Ds Rg Cn Nh Fl Mc Lv Ts Og").split()
ZOF = dict((s, z) for z, s in enumerate(SYMBOLS))


class ReaderError(Exception):
    """The table text does not have the shape the reader knows: a harness matter, not a verdict."""


def pkg_dir():
    import periodictable
    return os.path.dirname(os.path.abspath(periodictable.__file__))


def _text(pkg, name):
    with open(os.path.join(pkg, name), "rb") as f:
        raw = f.read()
    try:
        return raw.decode("utf8")
    except UnicodeDecodeError:
        return raw.decode("latin-1")


def _block(src, name):
    m = re.search(r'^%s\s*=\s*"""\\?\n(.*?)\\?\n?"""' % re.escape(name), src, re.S | re.M)
    if not m:
        raise ReaderError("no triple-quoted block %s" % name)
    return m.group(1)


# ----------------------------------------------------------------------
_CORDERO_ROW = re.compile(r"^\s*(\d+|-)\s+([A-Z][a-z]?)(sp3|sp2|sp|l\.s\.|h\.s\.)?\s+(\d+\.\d+)(?:\s+(\d+)\s+(\d+))?\s*$")


def cordero(pkg):
    out = {}
    last = None
    for line in _block(_text(pkg, "covalent_radius.py"), "Cordero").split("\n"):
        if not line.strip():
            continue
        m = _CORDERO_ROW.match(line)
        if not m:
            raise ReaderError("Cordero row %r" % line)
        zcol, sym, _state, r, dr, _n = m.groups()
        if sym not in ZOF:
            raise ReaderError("Cordero symbol %r" % sym)
        if zcol == "-":
            # alternate spin state of the element of the previous numbered row
            if sym != last:
                raise ReaderError("Cordero alternate row %r does not follow its element" % line)
            continue
        if int(zcol) != ZOF[sym]:
            raise ReaderError("Cordero row %r: Z column disagrees with the symbol" % line)
        if sym in out:
            raise ReaderError("Cordero: two numbered rows for %s" % sym)
        out[sym] = (r, dr)
        last = sym
    return out


# ----------------------------------------------------------------------
_CRYSTAL_ROW = re.compile(r"^\s*(None|\{[^{}]*\})\s*,?\s*(\])?\s*#\s*(\w+)\s*$")
_CRYSTAL_ITEM = re.compile(r"'([^']+)'\s*:\s*(?:'([^']*)'|([-+]?[0-9.]+(?:[eE][-+]?\d+)?))\s*(?:,|$)")
# the comments carry three known slips: index 0 is written X, terbium is written Th (a second Th follows for
# thorium), lawrencium carries its old symbol Lw
_CRYSTAL_COMMENT_FIX = {("X", 0): "n", ("Th", 0): "Tb", ("Th", 1): "Th", ("Lw", 0): "Lr"}


def crystal(pkg):
    src = _text(pkg, "crystal_structure.py")
    m = re.search(r"^crystal_structures\s*=\s*\[\\?\n(.*?\]\s*#\s*\w+)\s*$", src, re.S | re.M)
    if not m:
        raise ReaderError("crystal_structures list not found")
    out = {}
    seen = {}
    closed = False
    for line in m.group(1).split("\n"):
        if not line.strip():
            continue
        if closed:
            raise ReaderError("text after the end of crystal_structures")
        r = _CRYSTAL_ROW.match(line)
        if not r:
            raise ReaderError("crystal row %r" % line)
        body, close, comment = r.groups()
        k = seen.get(comment, 0)
        seen[comment] = k + 1
        sym = _CRYSTAL_COMMENT_FIX.get((comment, k), comment if k == 0 else None)
        if sym not in ZOF or sym in out:
            raise ReaderError("crystal comment %r (occurrence %d)" % (comment, k))
        if body == "None":
            out[sym] = None
        else:
            d = {}
            inner = body[1:-1].strip()
            pos = 0
            while pos < len(inner):
                it = _CRYSTAL_ITEM.match(inner, pos)
                if not it:
                    raise ReaderError("crystal dict %r" % body)
                d[it.group(1)] = it.group(2) if it.group(2) is not None else float(it.group(3))
                pos = it.end()
                while pos < len(inner) and inner[pos] == " ":
                    pos += 1
            out[sym] = d
        closed = bool(close)
    return out


# ----------------------------------------------------------------------
def spectral(pkg):
    out = {}
    for line in _block(_text(pkg, "xsf.py"), "spectral_lines_data").split("\n"):
        if not line.strip():
            continue
        m = re.match(r"^\s*([A-Z][a-z]?)\s+(\d+\.\d+)\s+(\d+\.\d+)\s*$", line)
        if not m or m.group(1) not in ZOF or m.group(1) in out:
            raise ReaderError("spectral row %r" % line)
        out[m.group(1)] = (m.group(2), m.group(3))
    return out


# ----------------------------------------------------------------------
_CFML = re.compile(r'Magnetic_(Form|j2|j4|j6)\(\s*(\d+)\)\s*=\s*Magnetic_Form_Type\("([^"]*)"\s*,\s*&?\s*'
                   r'\(/([^/]*)/\)\s*\)')


def magnetic(pkg):
    block = _block(_text(pkg, "magnetic_ff.py"), "CFML_DATA")
    out = {}
    n = 0
    for m in _CFML.finditer(block):
        n += 1
        what, _idx, label, nums = m.groups()
        label = label.strip()
        if what == "Form":
            lm = re.match(r"^([MJ])([A-Z]{1,2})(\d)$", label)
            if not lm:
                raise ReaderError("CFML label %r" % label)
            jn = "j0" if lm.group(1) == "M" else "J"
            sym, charge = lm.group(2), int(lm.group(3))
        else:
            lm = re.match(r"^([A-Z]{1,2})(\d)$", label)
            if not lm:
                raise ReaderError("CFML label %r" % label)
            jn = what
            sym, charge = lm.group(1), int(lm.group(2))
        sym = sym[0] + sym[1:].lower()
        if sym not in ZOF:
            raise ReaderError("CFML symbol %r" % label)
        vals = [float(x) for x in nums.split(",")]
        if len(vals) != 7:
            raise ReaderError("CFML values %r" % nums)
        out.setdefault(sym, {}).setdefault(charge, {}).setdefault(jn, []).append(tuple(vals))
    if n != block.count("Magnetic_Form_Type("):
        raise ReaderError("CFML: %d entries read, %d present" % (n, block.count("Magnetic_Form_Type(")))
    return out


# ----------------------------------------------------------------------
def waaskirf(pkg):
    lines = _text(pkg, os.path.join("xsf", "f0_WaasKirf.dat")).split("\n")
    out = {}
    i = 0
    while i < len(lines):
        w = lines[i].split()
        if w and w[0] == "#S":
            if len(w) != 3:
                raise ReaderError("DABAX #S line %r" % lines[i])
            z, label = int(w[1]), w[2]
            j = i + 1
            while j < len(lines) and not lines[j].startswith("#L"):
                if not lines[j].startswith("#"):
                    raise ReaderError("DABAX: data before #L for %s" % label)
                j += 1
            names = lines[j].split()[1:]
            vals = lines[j + 1].split()
            if sorted(names) != sorted(["a1", "a2", "a3", "a4", "a5", "c", "b1", "b2", "b3", "b4", "b5"]) or \
                    len(vals) != 11 or label in out:
                raise ReaderError("DABAX block %s" % label)
            d = dict(zip(names, [float(v) for v in vals]))
            out[label] = {"Z": z, "a": [d["a%d" % k] for k in range(1, 6)], "b": [d["b%d" % k] for k in range(1, 6)],
                          "c": d["c"]}
            i = j + 2
        else:
            i += 1
    return out


def cm_label(sym, charge):
    """Label of the Waasmaier-Kirfel entry of an element or ion: Fe, Fe2+, O1-."""
    if not charge:
        return sym
    return "%s%d%s" % (sym, abs(charge), "+" if charge > 0 else "-")
