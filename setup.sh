#!/bin/sh
# Offline setup: the checks run under /venv/bin/python and need hypothesis there.
PY=${VERIF_PYTHON:-/venv/bin/python}
if ! "$PY" -c "import hypothesis" 2>/dev/null; then
    "$PY" -m pip install --no-index --find-links /opt/veriftools/wheels hypothesis || exit 1
fi
"$PY" -c "import hypothesis, numpy, pyparsing; print('hypothesis', hypothesis.__version__)" || exit 1
chmod +x ./check
