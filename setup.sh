#!/bin/sh
# Offline setup: the checks run under /venv/bin/python and need hypothesis there.
PY=${VERIF_PYTHON:-/venv/bin/python}
if ! "$PY" -c "import hypothesis" 2>/dev/null; then
    "$PY" -m pip install --no-index --find-links /opt/veriftools/wheels hypothesis || exit 1
fi
"$PY" -c "import hypothesis, numpy, pyparsing; print('hypothesis', hypothesis.__version__)" || exit 1
# optional: atheris (coverage-guided tasks of the thorough tier, pbt/fuzz.py); kept outside /venv, in .deps (git-ignored).
# Without it those tasks report themselves as inconclusive; nothing else depends on it.
HERE=$(cd "$(dirname "$0")" && pwd)
if [ ! -d "$HERE/.deps/atheris" ]; then
    "$PY" -m pip install -q --no-index --find-links /opt/veriftools/wheels --target "$HERE/.deps" atheris >/dev/null 2>&1 \
        || echo "atheris not installed (fuzz tasks will be inconclusive)"
fi
chmod +x ./check
