#!/bin/sh
# tools/seed_batch.sh <round-suffix> <worktree-prefix> C01 C02 ...   : verify and import seeds, remove worktrees
suffix=$1; prefix=$2; shift 2
for p in "$@"; do
  python3 /verif/tools/seed_verify.py ${prefix}$p $p-$suffix > /tmp/seedverify-$p-$suffix.log 2>&1
  git -C /repo worktree remove --force ${prefix}$p
  python3 - "$p" "$suffix" <<'PY'
import json,sys
p,s=sys.argv[1:3]
d=json.load(open('/verif/seeded/%s-%s/meta.json'%(p,s))); v=d.get('verified',{})
print(p, 'valid' if v.get('valid_seed') else 'INVALID', {k:(v[k]['verdict'],v[k]['wall_s']) for k in v if k.startswith('check_')}, [l[:150] for k in v if k.startswith('check_') for l in v[k]['lines'][:1]])
PY
done
