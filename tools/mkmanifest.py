#!/usr/bin/env python3
"""Regenerate MANIFEST.json from the table below (run from /verif)."""
import json
import os
import subprocess

HERE = os.path.dirname(os.path.dirname(os.path.abspath(__file__)))

# id -> (technique, level text, level note, design ref)
CHECKS = {
    "C01": ("Hypothesis: rendered derivation trees with by-construction oracle + single-malformation rejection; thorough tier adds atheris/libFuzzer coverage-guided campaigns over the same strategies and oracles",
            "Generated search: thousands of derivation trees of the documented grammar are rendered to strings and the "
            "parsed composition, charge and density compared with values computed from the tree; one-malformation "
            "variants must raise. Public and private table. Exploration, not proof: absence is claimed only for the "
            "generated cases.",
            "Trusts fractions.Fraction for the reference counts; only documented-grammar strings are generated.",
            "DESIGN.md section 4 C01"),
    "C09": ("fork-per-history exploration of first-touch event sequences against a canonical-run oracle (singles, pairs, "
            "state-closure BFS, Hypothesis lists, ddmin shrinking)",
            "Every history of lazy-load first-touch events runs in a fresh interpreter; per-event observations and a digest of "
            "everything the public table serves must equal the canonical run. Quick: all single events (405 incl. reload=True inits, secondary calculators and probes through a bare private table), 30% of the "
            "same-group pairs, generated histories; thorough: all pairs of a reduced alphabet, breadth-first closure of the "
            "abstract loader state, thousands of generated histories. Exploration of a finite but large history space.",
            "fork() of a zygote that never imported periodictable stands for a fresh interpreter; digest samples 12 atoms for x-ray.",
            "DESIGN.md section 4 C09"),
    "C10": ("fork-per-history Hypothesis search over interleavings of private-table init, public use, assignment and in-place "
            "mutation; digest + shared-object-graph oracle",
            "Generated and systematic histories (private init first for every loader; mutate/assign then observe) each in a "
            "fresh interpreter; public and unmutated private tables must serve the canonical digest, no mutable object may be "
            "reachable from two tables, pickles restore identical atoms, parsed atoms belong to T.",
            "Mutations only after the group's init on that table; calculators without a table argument (D2O_sld, fasta) are not "
            "judged on private tables; one recorded finding (shared class-level Neutron placeholder) is excluded by bucket.",
            "DESIGN.md section 4 C10"),
    "C06": ("exhaustive sweep of the embedded mass/abundance/density tables against independent source-text readers "
            "(ast/regex/Decimal) in 5 table configurations + Hypothesis search over uncertainty-notation strings",
            "Every row of isotope_mass, element_mass, isotope_abundance and the density table, and every nuclide not listed, "
            "is compared bit-identically (or within the stated tolerance for derived quantities) with an independent reading "
            "of the source text, for the public table and private tables initialised before/after it; parse_uncertainty is "
            "searched with generated value(unc)/[a]/[a,b] strings. The sweep is exhaustive over the finite tables.",
            "The table text in mass.py/density.py is the specification; Decimal arithmetic is trusted.",
            "DESIGN.md section 4 C06"),
    "C07": ("exhaustive sweep of the neutron tables (364 rows, imaginary table, all energy-table nodes, all atoms without "
            "a row) against an independent reader addressed by column name, in 5 table configurations",
            "Every served field of every row equals float(<bare number>) of the independently read cell; gap fills, complex "
            "b_c, sole-isotope elements, missing atoms and every node of the 14 energy tables are checked, scalar and vector.",
            "The table text in nsf.py/nsf_tables.py is the specification; Pu/Cm element records are not judged.",
            "DESIGN.md section 4 C07"),
    "C05": ("sweep of all 92 .nff tables (every node, midpoints, +/-ulp neighbours, range ends) against an independent "
            "reader + Hypothesis search over atoms/energies/compounds/mirror parameters + sweep of the Cromer-Mann sets",
            "f1/f2 at and around every tabulated node of every element are compared with bisect/two-point interpolation of "
            "the independently read file (NaN outside the range); SLD, refraction index, energy/wavelength and scalar/vector "
            "agreement, density linearity, isotope independence and reflectivity bounds are searched with generated "
            "compounds; f0 limits and cut-off are swept over all coefficient sets that name an atom or ion.",
            "Table files are the specification; the non-increasing stretch of si.nff is excluded; physical constants are "
            "written out independently (CODATA 2006 as documented).",
            "DESIGN.md section 4 C05"),
    "C14": ("every activation.dat row x Hypothesis-generated environments against a 120-digit decimal closed-form reference, "
            "with a forward-error-bound classifier; metamorphic relations; generated sample formulas",
            "All 513 reaction rows are evaluated in generated flux/Cd/fast/exposure/rest/mass environments and compared "
            "(rel 1e-9) with the exact chain solution computed in decimal from an independently read activation.dat; "
            "errors are classified by a kappa bound of the branch's own operations (cancellation vs wrong value); mass "
            "proportionality, exposure monotonicity, 2^(-t/T) rest decay, fast/epithermal omission and abundance-weighted "
            "element sums are checked as relations.",
            "decimal arithmetic and the documented unit constants are trusted; two recorded findings (2n and b branch "
            "cancellation within 64*eps*kappa) are excluded by bucket, anything beyond the bound is still a violation.",
            "DESIGN.md section 4 C14"),
    "C15": ("Hypothesis search over samples, rest-time lists and targets against a decimal re-computation of the summed "
            "decay from the activities at removal; outcome-class independence across rest-time lists",
            "decay_time must return t>=0 with summed activity within 0.1% of the target, 0 iff the activity at removal is at or "
            "below target, RuntimeError otherwise (counted inconclusive), and the same outcome for three different rest-time "
            "lists of the same sample.",
            "Truth = activities at removal of a [0] rest-time run of the same sample, decayed in decimal.",
            "DESIGN.md section 4 C15"),
    "C16": ("Hypothesis search over compounds with labile H[1], D2O and volume fractions, wavelengths, against a "
            "direct-substitution oracle built from atom counts and masses; sweep of all fasta table molecules",
            "D2O_sld / D2O_match and the fasta.Molecule sld/Dsld/D2Omatch/D2Osld are compared with neutron_sld of the "
            "explicitly substituted {atom: count} compound at mass-scaled density, with the H2O/D2O solvent mixture at "
            "volume fraction 0 and with linear mixing in between; the match point must make the SLD independent of the "
            "volume fraction. All 99 table molecules are swept on a (v, d) grid.",
            "neutron_sld itself is trusted here (C03 decides it); Formula.replace is not used by the oracle.",
            "DESIGN.md section 4 C16"),
    "C18": ("Hypothesis search over code strings, permutations and rendered FASTA texts against sums over base residue "
            "entries with an independently written ambiguity-code map; exhaustive sweep of the code tables; thorough tier adds atheris/libFuzzer coverage-guided campaigns over the same strategies and oracles",
            "Formula, cell volume, charge, masses and density of generated sequences equal the Fraction-weighted sums of the "
            "base residue entries; order independence, blanks, '*' truncation, the aa:/dna:/rna: prefixes and FASTA reading "
            "(records, wrapping, typing by extension) are checked; the 61 code-table entries are swept exhaustively.",
            "The 20+4+4 base residue entries are the specification; ambiguity codes follow the FASTA convention written out "
            "in the check.",
            "DESIGN.md section 4 C18"),
    "C03": ("Hypothesis search over compounds/densities/wavelengths against a plain-Python reference of the documented "
            "equations + exhaustive sweeps of the 363 atoms with data and of every energy-table interval",
            "All seven outputs of neutron_scattering (and neutron_sld, element/isotope routes) are compared (rel 1e-10 with "
            "operand-scale floors) with an independent calculator that reads the energy-dependent tables itself "
            "(interpolation, end clamping, natural Lu mix); string/dict compounds, density and natural_density, scalar/list/"
            "1-D/2-D wavelengths and energy= are generated; compounds with an atom without data must give (None, None, None).",
            "Per-atom fields (b_c, cross sections, masses) are taken as served (C06/C07 tie them to the tables); the "
            "interpolation axis (wavelength) is detected once and then required everywhere.",
            "DESIGN.md section 4 C03"),
    "C04": ("Hypothesis-generated metamorphic relations: density scaling, count scaling, regrouping/reordering, "
            "energy vs wavelength, vector vs scalar, unit-conversion identities, non-negativity",
            "For each generated base compound six derived variants are evaluated and the documented relation between the "
            "results is checked; conversion triples (E, lambda, v) are checked against the physical constants and anchors.",
            "Relations only; absolute values are C03's business.",
            "DESIGN.md section 4 C04"),
    "C17": ("Hypothesis differential test: neutron_composite_sld(materials)(weights, density) vs neutron_sld of the "
            "weighted sum",
            "Generated lists of 1-6 materials (repeats, energy-dependent isotopes), weight vectors with zeros and all-zero, "
            "densities including 0, scalar/length-1/length-n wavelengths; all three outputs and their shapes must agree "
            "with the direct calculation on the summed composition.",
            "neutron_sld is the reference (decided by C03).",
            "DESIGN.md section 4 C17"),
    "C02": ("Hypothesis-generated operation histories (constructors, f+g, n*f, f+=g over named variables) interpreted "
            "against a Fraction model with snapshot-based aliasing detection; thorough tier adds atheris/libFuzzer coverage-guided campaigns over the same strategies and oracles",
            "Each history of up to 30 operations is applied to real Formula objects and to a {(Z,A,charge): Fraction} model; "
            "after every step atoms, mass (ion = atom minus charge electron masses, from element masses), charge, mass "
            "fractions and molecular mass are compared and every other variable must be unchanged.",
            "fractions.Fraction and the served atomic masses are trusted; structure nesting of f+=g is not judged, only its atoms.",
            "DESIGN.md section 4 C02"),
    "C13": ("Hypothesis search over formulas produced by parsing rendered trees, by arithmetic histories and by the mixture "
            "constructors; print -> parse round trip against the printed-precision structure; thorough tier adds atheris/libFuzzer coverage-guided campaigns over the same strategies and oracles",
            "str(f) must parse, and the parsed structure must equal f's structure with every count rounded to six significant "
            "digits and count-1 groups dissolved; atoms by identity; repr and names checked; counts over [1e-20, 1e20].",
            "Count-1 groups are transparent (the grammar cannot denote them); a source string rejected by the parser is "
            "inconclusive here (C01/C11 judge that).",
            "DESIGN.md section 4 C13"),
    "C19": ("Hypothesis search over atom multisets with several constructions (dict, rendered tree, arithmetic) of each; "
            "composition, ordering, canonicity, idempotence and parse-back relations; thorough tier adds atheris/libFuzzer coverage-guided campaigns over the same strategies and oracles",
            "For every generated multiset all variants must have equal Hill forms and strings, the Hill form must keep the "
            "atom counts, be ordered C, H, then alphabetical (isotopes by mass number), be idempotent, and a formula "
            "rendered in Hill order and parsed must equal its own Hill form.",
            "D and T sort under their own symbols; ties between charge states follow the library's own (now canonical) order.",
            "DESIGN.md section 4 C19"),
    "C08": ("exhaustive identity sweep over all 17765 atoms x every lookup route in 5 table configurations, all invalid "
            "neighbour keys, plus Hypothesis-generated operation sequences (lookups, pickle, copy, change_table, lazy loads, "
            "private inits, bad keys) run in forked fresh interpreters against a first-seen registry model",
            "Every element, isotope, ion and isotope ion of the public and private tables is reached through every route "
            "(number, symbol, name, 'A-Sym', attribute, module attribute, el[A], .ion[c], pickle protocols 0-5, copy, "
            "deepcopy, change_table) and must be the identical object with matching attributes; ~59k invalid keys per table "
            "must raise and leave the table unchanged; iteration order is checked.",
            "Z-to-symbol mapping from an embedded IUPAC list; spellings int() accepts and whitespace variants are not judged.",
            "DESIGN.md section 4 C08"),
    "C20": ("exhaustive sweep of the five ancillary tables against independent regex readers of the embedded text/files "
            "(position-free keys) on public and private tables + Hypothesis-generated Q for the form-factor formulas",
            "Covalent radius and uncertainty, crystal structure, K-alpha/K-beta1, magnetic form-factor coefficients per "
            "charge state (j0/j2/j4/j6/J) and the 211 Cromer-Mann sets are compared with independently read entries for "
            "every element and ion; elements without an entry must serve None/no attribute; j0(0)=1 within 0.5%, jn(0)=0 "
            "and the analytic forms are evaluated for generated scalar/list/array Q.",
            "The embedded tables are the specification; three comment slips in crystal_structure.py (#X, #Th, #Lw) are "
            "corrected in the reader.",
            "DESIGN.md section 4 C20"),
    "C11": ("Hypothesis search over component lists and rendered mixture strings (wt%/vol%, 13 units, layers, nested and "
            "repeated groups) against a Fraction/float reference of the mass/volume proportions; string vs API differential; thorough tier adds atheris/libFuzzer coverage-guided campaigns over the same strategies and oracles",
            "Generated mixtures by weight and volume are compared, after normalisation, with the composition computed from "
            "component masses and densities; zero quantities, formula-unit scaling, density = total mass / total volume, "
            "total_mass and thickness are checked; every string form is translated by the generator into the equivalent "
            "API call and both must agree.",
            "Component masses/densities are taken from the parsed components; only documented string forms are generated.",
            "DESIGN.md section 4 C11"),
    "C12": ("Hypothesis search over formulas with isotopes/ions, density routes (keyword, attribute, @d/@dn/@di), "
            "substitutions and cell parameters against closed-form references",
            "natural_density/density ratio from element masses with ion charges kept, inversion of the setter, single-atom "
            "default, replace() atom map and mass-scaled density (None stays None), packing-factor volume and the lattice "
            "cell volume formula are compared with independent closed forms.",
            "Element/isotope masses and covalent radii are taken as served (C06/C20 tie them to the tables).",
            "DESIGN.md section 4 C12"),
}

PENDING = {}


def main():
    props = [json.loads(l) for l in open(os.path.join(HERE, "properties.jsonl"))]
    try:
        hooks = subprocess.run(["git", "-C", "/repo", "log", "--format=%H", "--grep=^hook:"],
                               capture_output=True, text=True).stdout.split()
    except Exception:
        hooks = []
    checks = []
    na = []
    for p in props:
        pid = p["id"]
        if pid in CHECKS:
            tech, text, note, ref = CHECKS[pid]
            checks.append({
                "property_id": pid,
                "quick_cmd": "./check %s --tier quick" % pid,
                "thorough_cmd": "./check %s --tier thorough" % pid,
                "evidence_file": "evidence/%s.json" % pid,
                "replay_cmd_template": "./check %s --replay {path}" % pid,
                "engine": "pbt",
                "level_claimed": {"category": "exploration", "text": text, "design_ref": ref},
                "level_note": note,
                "technique": tech,
            })
        else:
            na.append({"property_id": pid,
                       "reason": PENDING.get(pid, "check not built yet; property is decidable with this technique "
                                                  "(see DESIGN.md section 4) and will be claimed once its check exists")})
    man = {
        "version": 1,
        "setup_cmd": "sh ./setup.sh",
        "hooks": {
            "guard": "PERIODICTABLE_VERIF",
            "enable": "no source hooks are needed; checks import /repo's working tree directly (PERIODICTABLE_VERIF=1 "
                      "is exported by ./check but nothing in /repo reads it)",
            "baseline_off_cmd": "cd /repo && /venv/bin/python -m pytest -ra -q -p no:cacheprovider --timeout=900 "
                                "--continue-on-collection-errors",
            "source_commits": hooks,
            "add_only": True,
        },
        "engines": [{"name": "pbt", "path": "pbt/runner.py", "serves_properties": sorted(CHECKS),
                     "kind_free_text": "Hypothesis 6.168 strategies and rule-based machines, exhaustive sweeps of the "
                                       "embedded tables with independent readers, fork-per-history exploration of loader "
                                       "states; one process per task, 16 cores"},
                    {"name": "fuzz", "path": "pbt/fuzz.py",
                     "serves_properties": ["C01", "C02", "C11", "C13", "C18", "C19"],
                     "kind_free_text": "atheris 3.1 / libFuzzer coverage-guided campaigns (thorough tier) that drive the "
                                       "Hypothesis strategies and oracles of existing tasks through fuzz_one_input; "
                                       "findings are replayed without the fuzzer before they are reported"}],
        "checks": checks,
        "not_applicable": na,
        "notes": "Run ./check <ID> [--tier quick|thorough]; VERIF_SEED selects the seed. known_findings.json lists recorded "
                 "findings (status known) and repaired defects (status fixed, regression cases). Every task also runs under a "
                 "seed-determined subset of ambient process-state perturbations (pbt/ambient.py: working directory, numpy "
                 "print/error state, decimal context, calls from fresh threads, gc pressure, import order, pyparsing global "
                 "settings, module reload, subclassed private tables, legitimately rejected calls between the valid ones, ageing of the "
                 "process before early cases are re-judged, warnings as errors); "
                 "VERIF_AMBIENT=plain switches that off, a replay file records the subset it was found under.",
    }
    with open(os.path.join(HERE, "MANIFEST.json"), "w") as f:
        json.dump(man, f, indent=1)
        f.write("\n")


if __name__ == "__main__":
    main()
