#!/usr/bin/env python3
"""Regenerate the seed table and the mutant list of DESIGN.md section 6 from seeded/*/meta.json and selftest/."""
import collections
import glob
import json
import os
import re

HERE = os.path.dirname(os.path.dirname(os.path.abspath(__file__)))


def short(t, n=230):
    t = " ".join(str(t).split())
    return t if len(t) <= n else t[:n - 1] + "…"


def main():
    rows = []
    bad = []
    for d in sorted(glob.glob(os.path.join(HERE, "seeded", "*"))):
        m = json.load(open(os.path.join(d, "meta.json")))
        v = m.get("verified", {})
        chk = v.get("check_" + m["property"], {})
        b = ""
        for l in chk.get("lines", [])[:1]:
            mm = re.search(r"bucket=(\S+)", l)
            b = mm.group(1) if mm else ""
        by = m["property"]
        if chk.get("verdict") != "CAUGHT":
            # a change whose violation belongs to another listed property (meta "also_check") counts when THAT check fires
            for other in m.get("also_check", []):
                c2 = v.get("check_" + other, {})
                if c2.get("verdict") == "CAUGHT":
                    chk, by = c2, other
                    for l in c2.get("lines", [])[:1]:
                        mm = re.search(r"bucket=(\S+)", l)
                        b = mm.group(1) if mm else ""
                    break
        if chk.get("verdict") != "CAUGHT" or not v.get("valid_seed"):
            bad.append((os.path.basename(d), chk.get("verdict"), v.get("valid_seed")))
        rows.append("| %s | %s | %s | `./check %s` → `%s` |" % (
            os.path.basename(d), short(m["summary"]).replace("|", "\\|"), short(m.get("needs", ""), 200).replace("|", "\\|"),
            by, b))
    table = "\n".join(["| seed | what was changed (by an isolated sub-agent, given only the property text) | needs | caught by |",
                       "|---|---|---|---|"] + rows)
    mut = collections.OrderedDict()
    n = 0
    for f in sorted(glob.glob(os.path.join(HERE, "selftest", "C*", "*.diff"))):
        mut.setdefault(f.split("/")[-2], []).append(os.path.basename(f)[:-5])
        n += 1
    mutants = "\n".join("* **%s** (%d): %s" % (p, len(ms), ", ".join(ms)) for p, ms in mut.items())
    p = os.path.join(HERE, "DESIGN.md")
    s = open(p).read()
    s = re.sub(r"<!-- SEED-TABLE-BEGIN -->.*?<!-- SEED-TABLE-END -->",
               "<!-- SEED-TABLE-BEGIN -->\n" + table.replace("\\", "\\\\") + "\n<!-- SEED-TABLE-END -->", s, flags=re.S)
    s = re.sub(r"<!-- MUTANTS-BEGIN -->.*?<!-- MUTANTS-END -->",
               "<!-- MUTANTS-BEGIN -->\n" + mutants.replace("\\", "\\\\") + "\n<!-- MUTANTS-END -->", s, flags=re.S)
    open(p, "w").write(s)
    print("seeds: %d  mutants: %d  not-caught-or-invalid: %r" % (len(rows), n, bad))


if __name__ == "__main__":
    main()
