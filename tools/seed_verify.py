#!/usr/bin/env python3
"""
Import and verify a seeded change produced by an isolated sub-agent.

    tools/seed_verify.py <worktree-with-_seed> <name> [--no-check]

Copies _seed/{patch.diff,demo.py,meta.json} to /verif/seeded/<name>/, then in a
scratch copy of /repo (under /tmp, removed afterwards):
  1. demo.py on the clean copy must exit 0,
  2. the patch must apply and the repository's test suite must pass,
  3. demo.py on the patched copy must exit non-zero,
  4. (unless --no-check) the property's quick check must report a VIOLATION.
The outcome is appended to meta.json under "verified".
"""
import json
import os
import shutil
import subprocess
import sys
import time

VERIF = os.path.dirname(os.path.dirname(os.path.abspath(__file__)))


def sh(cmd, cwd, env=None, timeout=3600):
    e = dict(os.environ)
    e.update(env or {})
    r = subprocess.run(cmd, cwd=cwd, env=e, capture_output=True, text=True, timeout=timeout)
    return r.returncode, (r.stdout + r.stderr)


def main():
    args = [a for a in sys.argv[1:] if not a.startswith("--")]
    src, name = args[0], args[1]
    dst = os.path.join(VERIF, "seeded", name)
    if os.path.isdir(os.path.join(src, "_seed")):
        os.makedirs(dst, exist_ok=True)
        for f in ("patch.diff", "demo.py", "meta.json"):
            shutil.copy(os.path.join(src, "_seed", f), os.path.join(dst, f))
    meta = json.load(open(os.path.join(dst, "meta.json")))
    prop = meta["property"]
    scratch = "/tmp/seedchk.%d" % os.getpid()
    shutil.copytree("/repo", scratch, ignore=shutil.ignore_patterns(".git", "__pycache__", "*.pyc", "*.egg-info"))
    env = {"PYTHONPATH": scratch, "PYTHONDONTWRITEBYTECODE": "1"}
    out = {"at": time.strftime("%Y-%m-%d %H:%M"), "repo_head": subprocess.run(
        ["git", "-C", "/repo", "rev-parse", "--short", "HEAD"], capture_output=True, text=True).stdout.strip()}
    try:
        rc, o = sh(["/venv/bin/python", os.path.join(dst, "demo.py")], scratch, env)
        out["demo_clean_exit"] = rc
        rc, o = sh(["patch", "-p1", "-s", "-i", os.path.join(dst, "patch.diff")], scratch)
        out["patch_applies"] = (rc == 0)
        if rc != 0:
            out["patch_error"] = o[-400:]
        rc, o = sh(["/venv/bin/python", "-m", "pytest", "-q", "-p", "no:cacheprovider", "--no-cov"], scratch, env)
        out["tests"] = (o.strip().splitlines() or [""])[-1]
        out["tests_pass"] = (rc == 0)
        rc, o = sh(["/venv/bin/python", os.path.join(dst, "demo.py")], scratch, env)
        out["demo_patched_exit"] = rc
        out["demo_patched_output"] = o[-400:]
        if "--no-check" not in sys.argv:
            for p in [prop] + meta.get("also_check", []):
                t0 = time.time()
                rc, o = sh([os.path.join(VERIF, "check"), p, "--tier", "quick"], VERIF, {"VERIF_REPO": scratch})
                lines = [l[:300] for l in o.splitlines() if l.startswith(("VIOLATION", "HARNESS"))]
                out["check_%s" % p] = {"exit": rc, "verdict": {0: "MISSED", 1: "CAUGHT"}.get(rc, "HARNESS-ERROR"),
                                       "wall_s": round(time.time() - t0), "lines": lines[:4]}
    finally:
        shutil.rmtree(scratch, ignore_errors=True)
    out["valid_seed"] = bool(out.get("demo_clean_exit") == 0 and out.get("patch_applies") and out.get("tests_pass")
                             and out.get("demo_patched_exit") not in (0, None))
    meta["verified"] = out
    json.dump(meta, open(os.path.join(dst, "meta.json"), "w"), indent=1)
    print(json.dumps(out, indent=1))
    return 0


if __name__ == "__main__":
    sys.exit(main())
