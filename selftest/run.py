#!/usr/bin/env python3
"""
Sensitivity self-test: apply each mutant patch to a scratch copy of /repo and
expect the property's quick check to exit 1 with a VIOLATION line.

    selftest/run.py C01                 # all patches in selftest/C01/*.diff
    selftest/run.py C01 --tests         # also run the repository's 42 tests on the mutant
    selftest/run.py seeded              # all patches in seeded/*/patch.diff (property from meta.json)
    selftest/run.py path/to/x.diff C07  # one patch against one property

The scratch copy lives under /tmp/ptmut.<pid> and is removed afterwards.
"""
import glob
import json
import os
import shutil
import subprocess
import sys
import time

VERIF = os.path.dirname(os.path.dirname(os.path.abspath(__file__)))


def run_one(patch, props, tests=False, tier="quick", extra_env=None):
    scratch = "/tmp/ptmut.%d.%d" % (os.getpid(), int(time.time() * 1000) % 100000)
    shutil.copytree("/repo", scratch, ignore=shutil.ignore_patterns(".git", "__pycache__", "*.pyc", "doc", "*.egg-info"))
    try:
        r = subprocess.run(["patch", "-p1", "-s", "-d", scratch, "-i", os.path.abspath(patch)],
                           capture_output=True, text=True)
        if r.returncode != 0:
            return [(p, "PATCH-FAILED", r.stdout + r.stderr) for p in props]
        out = []
        if tests:
            shutil.copytree("/repo/doc", os.path.join(scratch, "doc"))
            t = subprocess.run(["/venv/bin/python", "-m", "pytest", "-q", "-p", "no:cacheprovider", "-x",
                                "--no-cov"], cwd=scratch, capture_output=True, text=True,
                               env=dict(os.environ, PYTHONPATH=scratch, PYTHONDONTWRITEBYTECODE="1"))
            out.append(("tests", "PASS" if t.returncode == 0 else "TESTS-FAIL", (t.stdout.strip().splitlines() or [""])[-1]))
        for p in props:
            env = dict(os.environ, VERIF_REPO=scratch)
            env.update(extra_env or {})
            t0 = time.time()
            c = subprocess.run([os.path.join(VERIF, "check"), p, "--tier", tier], capture_output=True, text=True, env=env)
            lines = [l for l in c.stdout.splitlines() if l.startswith(("VIOLATION", "HARNESS"))]
            verdict = {0: "MISSED", 1: "CAUGHT"}.get(c.returncode, "HARNESS-ERROR(%d)" % c.returncode)
            out.append((p, verdict, "%.0fs %s" % (time.time() - t0, " | ".join(l[:230] for l in lines[:3]))))
        return out
    finally:
        shutil.rmtree(scratch, ignore_errors=True)


def main():
    args = [a for a in sys.argv[1:] if not a.startswith("--")]
    tests = "--tests" in sys.argv
    tier = "thorough" if "--thorough" in sys.argv else "quick"
    jobs = []
    if args and args[0] == "seeded":
        for d in sorted(glob.glob(os.path.join(VERIF, "seeded", "*"))):
            meta = os.path.join(d, "meta.json")
            patch = os.path.join(d, "patch.diff")
            if os.path.exists(meta) and os.path.exists(patch):
                m = json.load(open(meta))
                if len(args) > 1 and os.path.basename(d) not in args[1:]:
                    continue
                jobs.append((patch, [m["property"]] + m.get("also_check", [])))
    elif args and args[0].endswith(".diff"):
        jobs.append((args[0], args[1:]))
    else:
        for p in args:
            for patch in sorted(glob.glob(os.path.join(VERIF, "selftest", p, "*.diff"))):
                jobs.append((patch, [p]))
    bad = 0
    for patch, props in jobs:
        for p, verdict, info in run_one(patch, props, tests, tier):
            print("%-60s %-6s %-14s %s" % (os.path.relpath(patch, VERIF), p, verdict, info), flush=True)
            if verdict not in ("CAUGHT", "PASS"):
                bad += 1
    return 1 if bad else 0


if __name__ == "__main__":
    sys.exit(main())
