#!/usr/bin/env python3
"""
Helper to write a mutant patch:   mkmut.py C01/name periodictable/formulas.py 'old text' 'new text'
The old text must occur exactly once in /repo/<file>; the unified diff goes to selftest/<C01/name>.diff
"""
import difflib
import os
import sys

VERIF = os.path.dirname(os.path.dirname(os.path.abspath(__file__)))


def mk(name, path, old, new, repo="/repo"):
    src = open(os.path.join(repo, path)).read()
    if src.count(old) != 1:
        raise SystemExit("%s: old text occurs %d times in %s" % (name, src.count(old), path))
    dst = src.replace(old, new)
    diff = "".join(difflib.unified_diff(src.splitlines(True), dst.splitlines(True), "a/" + path, "b/" + path))
    out = os.path.join(VERIF, "selftest", name + ".diff")
    os.makedirs(os.path.dirname(out), exist_ok=True)
    with open(out, "w") as f:
        f.write(diff)
    return out


if __name__ == "__main__":
    name, path, old, new = sys.argv[1:5]
    print(mk(name, path, old.encode().decode("unicode_escape"), new.encode().decode("unicode_escape")))
